--------------------------- MODULE DirTreeExport ---------------------------
(* Export of every finished scenario of DirTree with the tree, what the FILE-LIST must produce, the files of  *)
(* the model and the verdict of every probe, for replay against the real program.                              *)
EXTENDS DirTree
NodeSeq == SetToSeq({[p |-> p, k |-> tree[p].k, c |-> tree[p].c] : p \in DOMAIN tree \ {<<>>, <<AbsMark>>}})
IsPop   == fam \in {"populate", "invalid"}
Export == Done =>
   PrintT(<<"CASE", ToJson([fam    |-> fam,
                            nodes  |-> NodeSeq,
                            top    |-> IF IsPop THEN <<sc.top>> ELSE <<>>,
                            pre    |-> IsPop /\ sc.pre,
                            init   |-> IF IsPop /\ "init" \in DOMAIN sc THEN SetToSeq(sc.init) ELSE <<>>,
                            res    |-> result,
                            exact  |-> exact,
                            opt    |-> TheOpt,
                            kind   |-> ProbeKind,
                            rel    |-> ProbeRel,
                            wi     |-> IF fam \in {"match", "given"} THEN sc.wi ELSE 0,
                            gi     |-> IF fam = "given" THEN sc.gi ELSE 0,
                            text   |-> IF fam = "names" THEN sc.text ELSE <<>>,
                            parts  |-> IF fam = "names" THEN <<NStem(sc.text), NSuffixes(sc.text), NSuffix(sc.text)>>
                                       ELSE <<>>,
                            files  |-> IF Matched THEN Rels(F0) ELSE <<>>,
                            gen    |-> IF Matched THEN Rels(out) ELSE <<>>,
                            probes |-> Probes])>>)
=============================================================================
