------------------------------- MODULE Paths -------------------------------
(***************************************************************************)
(* C12: paths resolve under their relativity root; the home directories    *)
(* (and everything else outside the sandbox) are write-protected.          *)
(*                                                                         *)
(* A test case is a small program:                                         *)
(*     [cd]  def P1 = BASE  def P2 = LINK(P1) ... def Pn = LINK(Pn-1)  [cd] *)
(*     USE role (LINK(Pn), or BASE when n = 0)    [cd  USE the same again]  *)
(* (with two uses, use k designates the entry uk below the path, so that   *)
(* both effects can be told apart).                                        *)
(* A path expression is [RELATIVITY] FILE-NAME:                            *)
(*     rel  one of the relativity options, "default" (none given),         *)
(*          "relsym" (-rel Pk) or "ref" (FILE-NAME begins with @[Pk]@)     *)
(*     sfx  the name of a FILE-NAME shape: a sequence of parts, a part     *)
(*          being a literal component (c d e), a reference to a string     *)
(*          symbol (S = d, T = e), a literal absolute prefix (AL) or a     *)
(*          reference to a string symbol with an absolute value (AS)       *)
(* The program is processed the way Exactly processes a test case: every   *)
(* instruction is parsed (syntax: is the option one the argument accepts), *)
(* then every instruction is validated in order (symbol table; is the      *)
(* relativity of a referenced path symbol - followed to its ultimate root  *)
(* - one the argument accepts), then the instructions are executed in      *)
(* order (def: nothing; cd: changes the current directory; use: resolves   *)
(* NOW, so that a path relative to the current directory means the         *)
(* directory that is current at the use).                                  *)
(*                                                                         *)
(* A value is [root, phys, comps]: root = the relativity the value claims  *)
(* (what restrictions look at), phys = the root it is physically resolved  *)
(* under, comps = the components below it.  root = phys unless the named   *)
(* deviation "AbsoluteSuffixWins" (known finding D4) is switched on.       *)
(* Locations are [root, comps] with root one of home acthome here abs act  *)
(* tmp result ("here" = directory of the source file, "abs" = the absolute *)
(* prefix the case uses).                                                  *)
(*                                                                         *)
(* The deviation AbsoluteSuffixWins (what the code does today, documented  *)
(* by its author in doc/BUGS.rst) has three effects: RELATIVITY followed   *)
(* by an absolute FILE-NAME is not refused; an absolute FILE-NAME written  *)
(* directly in an instruction is not checked against what the argument     *)
(* accepts; at resolution an absolute FILE-NAME replaces everything before *)
(* it, while the value keeps claiming the relativity it was written with   *)
(* when the absolute part comes from a string symbol (a literal one makes  *)
(* the value absolute, and makes -rel SYMBOL forget its symbol).           *)
(*                                                                         *)
(* `cd` is not an argument that creates or modifies: the manual lists its  *)
(* accepted relativities (the model requires the rest to be rejected) and  *)
(* is silent about absolute paths (the model allows either); the current   *)
(* directory can therefore leave the sandbox by `cd ABSOLUTE-PATH`, and    *)
(* only so (CwdInSandbox).                                                 *)
(***************************************************************************)
EXTENDS Naturals, Sequences, FiniteSets, TLC

CONSTANTS MaxDepth,      \* longest chain of path-symbol definitions
          BaseSfx,       \* FILE-NAME shapes of the first expression of a chain (depth <= 1, rich phases)
          LinkSfx,       \* FILE-NAME shapes of an expression that refers to a path symbol (depth <= 1, rich phases)
          PlainBaseSfx,  \* ... the same for depth <= 1 in the other phases
          PlainLinkSfx,
          DeepBaseSfx,   \* ... the same for chains of depth >= 2
          DeepLinkSfx,
          Roles,         \* argument roles explored
          Phases,        \* phases explored
          RichPhases,    \* phases in which the large sets of shapes are explored
          DeepPhases,    \* phases in which chains of depth >= 2 are explored
          CdPos,         \* positions of a context `cd`: 0 none, 1 before the definitions, 2 between definitions and use,
                         \* 3 after the use, followed by a second use of the same path expression;
                         \* 4: no cd, but a MENTION of the last path symbol - a reference in a position that puts no
                         \* restriction on it (an argument of a program) - before the use: what an argument accepts
                         \* is decided for every reference, not once per symbol
                         \* 5: no cd; the instruction of the use refers to the last path symbol a SECOND time, in an
                         \* argument of its own that puts no restriction on it (the contents of the file it creates):
                         \* what the destination accepts is decided by the reference in the destination
          CdForms,       \* forms of the context `cd`: "tmp" (cd -rel-tmp c), "sub" (cd c)
          MayReject,     \* TRUE: where the property leaves a choice (accept or reject) both are explored as
                         \* behaviours; FALSE (random simulation): only "accept" is, the other is MayRejectOutcome
          Deviations     \* named deviations switched on ({} when a property is checked)

D4 == "AbsoluteSuffixWins" \in Deviations
\* sharpness control (never a finding): what an argument accepts is decided once per SYMBOL - a symbol that has
\* been referred to successfully is not checked again
OncePerSymbol == "ValidatedOncePerSymbol" \in Deviations

\* ---- vocabulary -----------------------------------------------------------------------------
Opts         == {"home", "acthome", "act", "tmp", "result", "cd", "here"}
SandboxRoots == {"act", "tmp", "result"}
PostAct      == {"ba", "assert", "cleanup"}
WriteRoles   == {"file", "dir", "copydst"}          \* arguments that designate something to create or modify
ReadRoles    == {"copysrc", "contentsof", "runprog", "existingfile", "contents", "exists", "dircontents",
                 "actprog", "def"}
AllRoles     == WriteRoles \cup {"cd"} \cup ReadRoles
NoLoc        == [root |-> "-", comps |-> <<>>]

Parts(s) == CASE s = "E"   -> <<>>
              [] s = "c"   -> <<"c">>
              [] s = "d"   -> <<"d">>
              [] s = "e"   -> <<"e">>
              [] s = "de"  -> <<"d", "e">>
              [] s = "ed"  -> <<"e", "d">>
              [] s = "S"   -> <<"S">>
              [] s = "T"   -> <<"T">>
              [] s = "Se"  -> <<"S", "e">>
              [] s = "dT"  -> <<"d", "T">>
              [] s = "ST"  -> <<"S", "T">>
              [] s = "AL"  -> <<"AL">>
              [] s = "ALd" -> <<"AL", "d">>
              [] s = "AS"  -> <<"AS">>
              [] s = "ASd" -> <<"AS", "d">>
IsAbsPart(p) == p \in {"AL", "AS"}
IsRefPart(p) == p \in {"S", "T", "AS"}
CompOf(p)    == CASE p \in {"d", "S"} -> "d" [] p \in {"e", "T"} -> "e" [] p = "c" -> "c"
SfxAbs(s)    == Len(Parts(s)) > 0 /\ IsAbsPart(Parts(s)[1])
SfxConst(s)  == \A j \in 1..Len(Parts(s)) : ~IsRefPart(Parts(s)[j])
SfxComps(s)  == LET ps == SelectSeq(Parts(s), LAMBDA p : ~IsAbsPart(p)) IN [j \in 1..Len(ps) |-> CompOf(ps[j])]

\* ---- the manual: default relativity and accepted relativities per argument role -------------
Default(r) == CASE r \in {"file", "dir", "copydst", "cd", "contents", "exists", "dircontents", "def"} -> "cd"
                [] r \in {"copysrc", "contentsof", "runprog", "existingfile"} -> "home"
                [] r = "actprog" -> "acthome"
Five == {"home", "acthome", "act", "tmp", "cd"}
\* relativities the manual lists for the argument ("abs" = an absolute path / a path symbol with an absolute value)
Must(r, ph) == CASE r \in {"file", "dir", "copydst"} -> {"act", "tmp", "cd"}
                 [] r = "cd"          -> {"act", "tmp", "cd"} \cup (IF ph \in PostAct THEN {"result"} ELSE {})
                 [] r = "copysrc"     -> Five \cup (IF ph \in PostAct THEN {"result"} ELSE {})
                 [] r = "dircontents" -> {"acthome", "act", "tmp", "cd"}
                 [] r \in {"def", "mention"} -> Opts \cup {"abs"}
                 [] OTHER             -> Five
\* relativities about which the property is silent: for arguments that are only read, the property claims the
\* resolution of what is accepted, not the rejection of the rest.  `cd` neither creates nor modifies: the manual
\* lists its accepted relativities (the rest is rejected) and is silent about absolute paths.
May(r, ph) == IF r \in WriteRoles THEN {}
              ELSE IF r = "cd" THEN {"abs"}
              ELSE ((Opts \ {"here"}) \cup {"abs"}) \ Must(r, ph)
Kind(root) == IF root = "here" THEN "abs" ELSE root          \* -rel-here gives an absolute path

PhasesOf(r) == CASE r \in {"contents", "exists", "dircontents"} -> {"assert"}
                 [] r = "actprog" -> {"act"}
                 [] OTHER -> {"setup", "ba", "assert", "cleanup"}

VARIABLES role, phase, depth, cdpos, cdform,    \* the family of the case (chosen in Init)
          prog,       \* the test case: sequence of [op, role, x]
          stage,      \* "build" "parse" "validate" "exec" "done"
          pc,         \* instruction being processed
          symtab,     \* values of the path symbols P1 .. (filled by validation, in order of definition)
          cwd,        \* the current directory (a location)
          outcome,    \* "-" until the case ends
          uses,       \* per executed use instruction: [loc: the location its path resolved to,
                      \*                                at: the directory that was current then]
          created,    \* locations created or modified by instructions
          nexec,      \* number of instructions executed
          cwdAtDef    \* history: current directory when P1 was defined
vars == <<role, phase, depth, cdpos, cdform, prog, stage, pc, symtab, cwd, outcome, uses, created, nexec, cwdAtDef>>
family == <<role, phase, depth, cdpos, cdform>>

\* ---- values -----------------------------------------------------------------------------------
IsBase(x) == x.rel \notin {"relsym", "ref"}
\* an absolute FILE-NAME together with a RELATIVITY: "If FILE-NAME is an absolute path, then RELATIVITY must not
\* be given"
Bad(x) == x.rel \notin {"default", "ref"} /\ SfxAbs(x.sfx)

Eval(x, st, dflt) ==
  LET cs == SfxComps(x.sfx) IN
  IF IsBase(x)
  THEN LET decl == IF x.rel = "default" THEN dflt ELSE x.rel IN
       IF ~SfxAbs(x.sfx) THEN [root |-> decl, phys |-> decl, comps |-> cs]
       ELSE IF D4 /\ x.rel # "default" /\ ~SfxConst(x.sfx)
            THEN [root |-> decl, phys |-> "abs", comps |-> cs]   \* deviation: claims decl, lives under abs
            ELSE [root |-> "abs", phys |-> "abs", comps |-> cs]
  ELSE LET b == st[x.sym] IN
       IF ~SfxAbs(x.sfx) THEN [root |-> b.root, phys |-> b.phys, comps |-> b.comps \o cs]
       ELSE IF D4 /\ ~SfxConst(x.sfx)
            THEN [root |-> b.root, phys |-> "abs", comps |-> cs]
            ELSE [root |-> "abs", phys |-> "abs", comps |-> cs]

Loc(v, dir) == IF v.phys = "cd" THEN [root |-> dir.root, comps |-> dir.comps \o v.comps]
               ELSE [root |-> v.phys, comps |-> v.comps]

\* ---- the case ---------------------------------------------------------------------------------
Layout == (IF cdpos = 1 THEN <<"cd">> ELSE <<>>) \o [j \in 1..depth |-> "def"]
          \o (IF cdpos = 2 THEN <<"cd">> ELSE <<>>) \o (IF cdpos = 4 THEN <<"mention">> ELSE <<>>) \o <<"use">>
          \o (IF cdpos = 3 THEN <<"cd", "use">> ELSE <<>>)
\* with two uses, use k designates the entry uk below the path the expression denotes
Leaf(k) == IF cdpos # 3 THEN <<>> ELSE IF k = 1 THEN <<"u1">> ELSE <<"u2">>
NumDefs(p) == Cardinality({j \in 1..Len(p) : p[j].op = "def"})
Slot == Layout[Len(prog) + 1]
SinglePhase == Cardinality(PhasesOf(role)) = 1
Rich    == phase \in RichPhases \/ SinglePhase
BaseSet == IF depth >= 2 THEN DeepBaseSfx ELSE IF Rich THEN BaseSfx ELSE PlainBaseSfx
LinkSet == IF depth >= 2 THEN DeepLinkSfx ELSE IF Rich THEN LinkSfx ELSE PlainLinkSfx
CtxCdExpr == [rel |-> IF cdform = "tmp" THEN "tmp" ELSE "default", sym |-> 0, sfx |-> "c"]

\* which expressions are explored (not a claim about the program: the bounds of the exploration)
BaseOk(x, r) ==
  /\ (x.rel = "here") => ~SfxAbs(x.sfx)          \* (-rel-here outside `def`: "only available when defining")
  /\ Bad(x) => (role \in WriteRoles \cup {"cd"})     \* RELATIVITY + absolute FILE-NAME: only where writing is at stake
  /\ (cdpos \in 1..3) => LET decl == IF x.rel = "default" THEN Default(r) ELSE x.rel IN
                     /\ ~SfxAbs(x.sfx)
                     /\ decl = "cd" \/ (cdpos = 3 /\ decl = "act")      \* (act: a control the cd must not affect)
LinkOk(x) ==
  /\ (x.rel = "ref") => ~SfxAbs(x.sfx)
  /\ Bad(x) => (role \in WriteRoles \cup {"cd"})

Init ==
  /\ role \in Roles /\ phase \in (PhasesOf(role) \cap Phases) /\ depth \in 0..MaxDepth
  /\ (depth >= 2) => (phase \in DeepPhases \/ SinglePhase)
  /\ cdpos \in CdPos /\ (cdpos = 2 => depth >= 1)
  /\ (cdpos = 3) => (role \notin {"cd", "actprog"} /\ (phase \in DeepPhases \/ SinglePhase))
  /\ (cdpos = 4) => (depth >= 1 /\ role # "actprog" /\ (phase \in DeepPhases \/ SinglePhase))
  /\ (cdpos = 5) => (depth >= 1 /\ role = "file" /\ (phase \in DeepPhases \/ SinglePhase))
  /\ cdform \in (IF cdpos \in {0, 4, 5} THEN {"-"} ELSE CdForms)
  /\ prog = <<>> /\ stage = "build" /\ pc = 1 /\ symtab = <<>>
  /\ cwd = [root |-> "act", comps |-> <<>>]           \* "act directory: the current directory when [setup] begins"
  /\ outcome = "-" /\ uses = <<>> /\ created = {} /\ nexec = 0
  /\ cwdAtDef = NoLoc

Frame == UNCHANGED family
Extend(ins) == /\ prog' = Append(prog, ins)
               /\ UNCHANGED <<stage, pc, symtab, cwd, outcome, uses, created, nexec, cwdAtDef>>

AddCd ==
  /\ stage = "build" /\ Slot = "cd" /\ Frame
  /\ Extend([op |-> "cd", role |-> "cd", x |-> CtxCdExpr])

AddMention ==
  /\ stage = "build" /\ Slot = "mention" /\ Frame
  /\ Extend([op |-> "mention", role |-> "mention", x |-> [rel |-> "ref", sym |-> depth, sfx |-> "E"]])

AddBase ==
  /\ stage = "build" /\ Slot = "def" /\ NumDefs(prog) = 0 /\ Frame
  /\ \E rel \in Opts \cup {"default"}, s \in BaseSet :
       LET x == [rel |-> rel, sym |-> 0, sfx |-> s] IN
       /\ BaseOk(x, "def")
       /\ Extend([op |-> "def", role |-> "def", x |-> x])

AddLink ==
  /\ stage = "build" /\ Slot = "def" /\ NumDefs(prog) >= 1 /\ Frame
  /\ \E rel \in {"relsym", "ref"}, s \in LinkSet :
       LET x == [rel |-> rel, sym |-> NumDefs(prog), sfx |-> s] IN
       /\ LinkOk(x)
       /\ Extend([op |-> "def", role |-> "def", x |-> x])

\* components below the ultimate root of the path the use instruction denotes (from the program text)
RECURSIVE TextComps(_, _)
TextComps(p, x) ==
  IF IsBase(x) \/ SfxAbs(x.sfx) THEN SfxComps(x.sfx)
  ELSE LET j == CHOOSE j \in 1..Len(p) : p[j].op = "def" /\ NumDefs(SubSeq(p, 1, j)) = x.sym IN
       TextComps(p, p[j].x) \o SfxComps(x.sfx)

HasUse == \E j \in 1..Len(prog) : prog[j].op = "use"
\* `copy SRC RELATIVITY` - a relativity option alone: the destination is that root directory itself, which exists, so
\* the source is copied INTO it under its own name
BareDirDest(x) == role = "copydst" /\ depth = 0 /\ cdpos = 0 /\ x.rel \in Opts /\ x.sfx = "E"
IntoDirOf(x) == IF BareDirDest(x) THEN <<"src.txt">> ELSE <<>>
Built  == Len(prog) + 1 = Len(Layout)          \* the instruction being added is the last one

AddUse ==
  /\ stage = "build" /\ Slot = "use" /\ ~HasUse /\ Frame
  /\ \E rel \in (IF depth = 0 THEN (Opts \cup {"default"}) ELSE {"relsym", "ref"}),
        s \in (IF depth = 0 THEN BaseSet \cup (IF role = "copydst" /\ cdpos = 0 THEN {"E"} ELSE {}) ELSE LinkSet) :
       LET x == [rel |-> rel, sym |-> depth, sfx |-> s] IN
       /\ IF depth = 0 THEN BaseOk(x, role) ELSE LinkOk(x)
       \* the use designates something below a root (or, for copy, a root itself)
       /\ (role # "def") => (TextComps(prog, x) # <<>> \/ BareDirDest(x))
       /\ prog' = Append(prog, [op |-> "use", role |-> role, x |-> x])
  /\ stage' = (IF Built THEN "parse" ELSE "build") /\ pc' = 1
  /\ UNCHANGED <<symtab, cwd, outcome, uses, created, nexec, cwdAtDef>>

\* the second use: the very same path expression again
AddUseAgain ==
  /\ stage = "build" /\ Slot = "use" /\ HasUse /\ Frame
  /\ prog' = Append(prog, prog[CHOOSE j \in 1..Len(prog) : prog[j].op = "use"])
  /\ stage' = "parse" /\ pc' = 1
  /\ UNCHANGED <<symtab, cwd, outcome, uses, created, nexec, cwdAtDef>>

\* ---- parsing: syntax of every instruction, before anything else -------------------------------
End(o) == /\ outcome' = o /\ stage' = "done"
          /\ UNCHANGED <<prog, pc, symtab, cwd, uses, created, nexec, cwdAtDef>>
NextInstr(st) == /\ IF pc < Len(prog) THEN pc' = pc + 1 /\ stage' = stage ELSE pc' = 1 /\ stage' = st
                 /\ UNCHANGED <<prog, outcome>>

\* the relativity the instruction states directly: an option, or "abs" for an absolute FILE-NAME, or none
Direct(x) == IF x.rel \in Opts THEN x.rel
             ELSE IF x.rel = "default" /\ SfxAbs(x.sfx) THEN "abs" ELSE "none"

ParseOk ==
  /\ stage = "parse" /\ Frame
  /\ LET i == prog[pc] IN
     /\ D4 \/ ~Bad(i.x)
     /\ \/ Direct(i.x) = "none"
        \/ Direct(i.x) \in Must(i.role, phase) \cup May(i.role, phase)
        \/ D4 /\ Direct(i.x) = "abs"                         \* deviation: an absolute FILE-NAME is not checked
  /\ NextInstr("validate")
  /\ UNCHANGED <<symtab, cwd, uses, created, nexec, cwdAtDef>>

ParseReject ==
  /\ stage = "parse" /\ Frame
  /\ LET i == prog[pc] IN
     \/ /\ ~D4 /\ Bad(i.x) /\ End("REJECTED")
     \/ /\ D4 \/ ~Bad(i.x)
        /\ Direct(i.x) \in Opts /\ Direct(i.x) \notin Must(i.role, phase)      \* (May: either way)
        /\ MayReject \/ Direct(i.x) \notin May(i.role, phase)
        /\ End("SYNTAX_ERROR")
     \/ /\ ~D4 /\ ~Bad(i.x)
        /\ Direct(i.x) = "abs" /\ "abs" \notin Must(i.role, phase)
        /\ MayReject \/ "abs" \notin May(i.role, phase)
        /\ End("REJECTED")

\* ---- validation: symbols, in order; nothing has been executed yet -------------------------------
\* the reference an instruction makes to a path symbol (0: none) - the deviation forgets the reference when
\* -rel SYMBOL is followed by a literal absolute FILE-NAME
RefOf(x) == IF IsBase(x) \/ (D4 /\ SfxAbs(x.sfx) /\ SfxConst(x.sfx)) THEN 0 ELSE x.sym

Define(i) == IF i.op = "def" THEN Append(symtab, Eval(i.x, symtab, Default("def"))) ELSE symtab

Mentioned(sym) == OncePerSymbol /\ \E j \in 1..(pc - 1) : prog[j].op = "mention" /\ prog[j].x.sym = sym
ValidateOk ==
  /\ stage = "validate" /\ Frame
  /\ LET i == prog[pc] IN
     /\ RefOf(i.x) # 0 => \/ Kind(symtab[RefOf(i.x)].root) \in Must(i.role, phase) \cup May(i.role, phase)
                          \/ Mentioned(RefOf(i.x))
     /\ symtab' = Define(i)
  /\ NextInstr("exec")
  /\ UNCHANGED <<cwd, uses, created, nexec, cwdAtDef>>

ValidateReject ==
  /\ stage = "validate" /\ Frame
  /\ LET i == prog[pc] IN
     /\ RefOf(i.x) # 0 /\ Kind(symtab[RefOf(i.x)].root) \notin Must(i.role, phase)
     /\ ~Mentioned(RefOf(i.x))
     /\ MayReject \/ Kind(symtab[RefOf(i.x)].root) \notin May(i.role, phase)
  /\ End("VALIDATION_ERROR")

\* the rejection the property also allows in this state ("-": none)
MayRejectOutcome ==
  IF stage \notin {"parse", "validate"} THEN "-"
  ELSE LET i == prog[pc] IN
       IF stage = "parse"
       THEN IF (D4 \/ ~Bad(i.x)) /\ Direct(i.x) \in May(i.role, phase) /\ ~(D4 /\ Direct(i.x) = "abs")
            THEN (IF Direct(i.x) = "abs" THEN "REJECTED" ELSE "SYNTAX_ERROR") ELSE "-"
       ELSE IF RefOf(i.x) # 0 /\ Kind(symtab[RefOf(i.x)].root) \in May(i.role, phase)
            THEN "VALIDATION_ERROR" ELSE "-"

\* ---- execution, in order -------------------------------------------------------------------------
Step == /\ nexec' = nexec + 1
        /\ IF pc < Len(prog) THEN pc' = pc + 1 /\ stage' = stage /\ outcome' = outcome
           ELSE pc' = pc /\ stage' = "done" /\ outcome' = "PASS"
        /\ UNCHANGED <<prog, symtab>>

ExecDef ==
  /\ stage = "exec" /\ prog[pc].op = "def" /\ Frame
  /\ cwdAtDef' = IF cwdAtDef = NoLoc THEN cwd ELSE cwdAtDef
  /\ Step /\ UNCHANGED <<cwd, uses, created>>

ExecMention ==       \* the program mentioned runs with the path as an argument: no effect on anything modelled
  /\ stage = "exec" /\ prog[pc].op = "mention" /\ Frame
  /\ Step /\ UNCHANGED <<cwd, uses, created, cwdAtDef>>

ExecCd ==
  /\ stage = "exec" /\ prog[pc].op = "cd" /\ Frame
  /\ cwd' = Loc(Eval(prog[pc].x, symtab, Default("cd")), cwd)
  /\ Step /\ UNCHANGED <<uses, created, cwdAtDef>>

ExecUse ==
  /\ stage = "exec" /\ prog[pc].op = "use" /\ Frame
  /\ LET b == Loc(Eval(prog[pc].x, symtab, Default(role)), cwd)      \* resolved NOW, against the current cwd
         l == [root |-> b.root, comps |-> b.comps \o Leaf(Len(uses) + 1) \o IntoDirOf(prog[pc].x)] IN
     /\ uses' = Append(uses, [loc |-> l, at |-> cwd])
     /\ created' = IF role \in {"file", "dir", "copydst"} THEN created \cup {l} ELSE created
     /\ cwd' = IF role = "cd" THEN l ELSE cwd
  /\ Step /\ UNCHANGED cwdAtDef

Next == AddCd \/ AddMention \/ AddBase \/ AddLink \/ AddUse \/ AddUseAgain \/ ParseOk \/ ParseReject \/ ValidateOk
        \/ ValidateReject \/ ExecDef \/ ExecMention \/ ExecCd \/ ExecUse
Spec == Init /\ [][Next]_vars

\* ---- the path the use instruction denotes, read off the program text ----------------------------
Done == stage = "done"
Use  == prog[Len(prog)]
DefX(k) == LET j == CHOOSE j \in 1..Len(prog) : prog[j].op = "def" /\ NumDefs(SubSeq(prog, 1, j)) = k IN prog[j].x
RECURSIVE UltRoot(_, _)
\* the ultimate relativity root of an expression: follow -rel SYMBOL / @[SYMBOL]@ to the first definition
UltRoot(x, dflt) ==
  IF SfxAbs(x.sfx) THEN "abs"
  ELSE IF IsBase(x) THEN (IF x.rel = "default" THEN dflt ELSE x.rel)
  ELSE UltRoot(DefX(x.sym), Default("def"))
UseRoot == UltRoot(Use.x, Default(role))
UseKind == Kind(UseRoot)
Rejected == outcome \in {"SYNTAX_ERROR", "VALIDATION_ERROR", "REJECTED"}
IsPrefix(a, b) == Len(a) <= Len(b) /\ SubSeq(b, 1, Len(a)) = a
\* where a relativity root is when use instruction k is executed
RootLoc(r, k) == IF r = "cd" THEN uses[k].at ELSE [root |-> r, comps |-> <<>>]
NumUses == IF cdpos = 3 THEN 2 ELSE 1
IntoDir == IntoDirOf(Use.x)

\* ---- properties (checked with Deviations = {}) ---------------------------------------------------
TypeOK ==
  /\ stage \in {"build", "parse", "validate", "exec", "done"}
  /\ outcome \in {"-", "PASS", "SYNTAX_ERROR", "VALIDATION_ERROR", "REJECTED"}
  /\ cwd.root \in SandboxRoots \cup {"abs", "home", "acthome", "here"}
  /\ Len(symtab) <= depth

\* an accepted path resolves to its documented root joined with every suffix of the chain, in order - at every use
ResolvesUnderRoot ==
  (Done /\ outcome = "PASS") =>
     /\ Len(uses) = NumUses
     /\ \A k \in 1..Len(uses) :
          /\ uses[k].loc.root = RootLoc(UseRoot, k).root
          /\ uses[k].loc.comps = RootLoc(UseRoot, k).comps \o TextComps(prog, Use.x) \o Leaf(k) \o IntoDir
          /\ IsPrefix(RootLoc(UseRoot, k).comps, uses[k].loc.comps)
\* relative to the current directory means: current when the path is USED - at each use anew
RelCdAtUse ==
  (Len(uses) >= 1 /\ UseRoot = "cd") =>
     /\ \A k \in 1..Len(uses) :
          /\ uses[k].loc = [root |-> uses[k].at.root,
                            comps |-> uses[k].at.comps \o TextComps(prog, Use.x) \o Leaf(k) \o IntoDir]
          /\ (depth >= 1 /\ cwdAtDef # uses[k].at)
                => uses[k].loc # [root |-> cwdAtDef.root,
                                  comps |-> cwdAtDef.comps \o TextComps(prog, Use.x) \o Leaf(k)]
     \* a cd between two uses moves what the second use designates; a path that is not relative to the current
     \* directory is not moved (second conjunct below)
     /\ (Len(uses) = 2) => /\ uses[1].at # uses[2].at
                           /\ uses[2].loc # [root |-> uses[1].at.root,
                                              comps |-> uses[1].at.comps \o TextComps(prog, Use.x) \o Leaf(2)]
CdDoesNotMoveOtherRoots ==
  (Len(uses) = 2 /\ UseRoot # "cd") =>
     /\ uses[1].loc.root = uses[2].loc.root
     /\ uses[1].loc.comps = TextComps(prog, Use.x) \o Leaf(1) /\ uses[2].loc.comps = TextComps(prog, Use.x) \o Leaf(2)
\* whatever is created or modified lies in the sandbox ...
WriteRolesNeverReachHome == \A l \in created : l.root \in SandboxRoots
\* ... and the current directory leaves the sandbox only by a `cd` to an absolute path
CwdInSandbox == (cwd.root \notin SandboxRoots) => (Done /\ role = "cd" /\ UseKind = "abs")
NoBad == \A j \in 1..Len(prog) : ~Bad(prog[j].x)
\* an argument that creates or modifies accepts act, tmp and the current directory only
WriteAcceptsOnlySandbox ==
  (Done /\ role \in WriteRoles) =>
     /\ (outcome = "PASS") <=> (UseKind \in Must(role, phase))
     /\ (outcome = "PASS") => UseKind \in {"act", "tmp", "cd"}
\* cd accepts what the manual lists (after [act]: result too); nothing relative to a home directory
CdAcceptsListed ==
  (Done /\ role = "cd") =>
     /\ (outcome = "PASS") => UseKind \in {"act", "tmp", "cd", "result", "abs"}
     /\ (UseKind \notin Must(role, phase) \cup {"abs"}) => Rejected
\* ... another option is a syntax error, an unacceptable path symbol - however deep - a validation error
RejectionNamed ==
  (Done /\ role \in WriteRoles \cup {"cd"} /\ UseKind \notin Must(role, phase) \cup May(role, phase) /\ NoBad) =>
     /\ (depth = 0 /\ Use.x.rel \in Opts) => outcome = "SYNTAX_ERROR"
     /\ (depth >= 1) => outcome = "VALIDATION_ERROR"
     /\ (depth = 0 /\ Use.x.rel = "default") => outcome = "REJECTED"
\* ... and is found before anything is executed
RejectedBeforeExecution == Rejected => (nexec = 0 /\ created = {} /\ uses = <<>> /\ cwd = [root |-> "act", comps |-> <<>>])
\* what the manual lists for an argument is accepted
ListedIsAccepted ==
  (Done /\ UseKind \in Must(role, phase) /\ NoBad) => outcome = "PASS"
=============================================================================
