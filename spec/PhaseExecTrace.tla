--------------------------- MODULE PhaseExecTrace ---------------------------
(***************************************************************************)
(* Trace validation: is every recorded execution of the real executor      *)
(* (hook events, projected by harness/trace_exec.py) a behaviour of        *)
(* PhaseExec?  The actions of PhaseExec are reused; the outcome of each    *)
(* step is bound to the logged one.  Many traces are validated by one TLC  *)
(* run (variable tid).  Assertions evaluated inside the trace actions:     *)
(* the step named by a marker is the step the specification is at          *)
(* (StepOrder), the previous phase told to cleanup (CleanupToldPrevious),  *)
(* processes start only while the sandbox is live (C03/C04), the sandbox   *)
(* directory is gone after removal, the reported status is acceptable.     *)
(* All invariants of PhaseExec are also checked in every state.            *)
(***************************************************************************)
EXTENDS PhaseExec, Json, IOUtils

O == INSTANCE Outcome

Traces == ndJsonDeserialize(IOEnv.TRACE_FILE)   \* sequence of traces; each a sequence of records
NT == Len(Traces)

VARIABLES tid,    \* which trace
          l,      \* position in it (next event to consume)
          marked  \* TRUE: the marker of forward step k has been consumed
tvars == <<vars, tid, l, marked>>

Tr == Traces[tid]
Ev == Tr[l]

TraceInit ==
  /\ tid \in 1..NT /\ l = 2 /\ marked = FALSE
  /\ n = Traces[tid][1].n /\ tcStatus = Traces[tid][1].st /\ mode = Traces[tid][1].mode
  /\ k = 1 /\ i = 1 /\ sds = "none" /\ cwd = "orig" /\ prev = "-" /\ fail = <<>> /\ cfail = <<>>
  /\ inCleanup = FALSE /\ ci = 1 /\ cleanupEntered = 0 /\ mains = 0
  /\ log = <<>> /\ done = FALSE /\ result = <<>>

Consume(e) == l <= Len(Tr) /\ Ev.ev = e /\ l' = l + 1 /\ UNCHANGED tid

\* the model outcome for a logged failure status of the current forward step
OutcomeFor(step, phase, status) ==
  IF status = "ok" THEN "ok"
  ELSE IF \E o \in Outcomes(step, phase) : Status(o) = status
       THEN CHOOSE o \in Outcomes(step, phase) : Status(o) = status
       ELSE "impossible"

\* 'step' marker of an instruction phase step: must name the step the specification is at.
TStepMarker ==
  /\ Consume("step") /\ ~done
  /\ IF Ev.step = "main" /\ Ev.phase = "cleanup"
     THEN /\ inCleanup /\ ci = 1
          /\ UNCHANGED <<vars, marked>>
     ELSE /\ ~inCleanup /\ k <= NF /\ i = 1 /\ ~marked
          /\ <<Ev.step, Ev.phase>> = Forward[k]
          /\ IF Count(k) = 0
             THEN SkipStep /\ marked' = FALSE
             ELSE UNCHANGED vars /\ marked' = TRUE

\* one executed instruction
TInstr ==
  /\ Consume("instr")
  /\ IF inCleanup
     THEN CleanupStep(OutcomeFor("main", "cleanup", Ev.status)) /\ UNCHANGED marked
     ELSE /\ marked /\ Forward[k][2] \notin {"act", "-"}
          /\ ForwardStep(OutcomeFor(Forward[k][1], Forward[k][2], Ev.status))
          /\ marked' = (k' = k)

\* one step of the action to check
TAct ==
  /\ Consume("act") /\ ~inCleanup /\ k <= NF
  /\ <<Ev.step, Ev.phase>> = Forward[k]
  /\ ForwardStep(OutcomeFor(Ev.step, "act", Ev.status))
  /\ marked' = FALSE

TSds ==
  /\ Consume("sds") /\ CreateSandbox /\ marked' = FALSE

TChdir ==   \* the code changes directory in a second step; the model does it in CreateSandbox
  /\ Consume("chdir") /\ sds = "live" /\ cwd = "act" /\ Ev.ok /\ k = KMkSds + 1 /\ i = 1
  /\ UNCHANGED <<vars, marked>>

\* a process is started on behalf of the test case: only while the sandbox is live
TProc ==
  /\ Consume("proc") /\ sds = "live" /\ ~done /\ Ev.ok
  /\ UNCHANGED <<vars, marked>>

\* not logged: in --act mode the main steps of before-assert and assert are not executed
TSkipActMode ==
  /\ ~done /\ ~inCleanup /\ k <= NF /\ ~marked /\ mode = "act"
  /\ Forward[k] \in {<<"main","ba">>, <<"main","assert">>}
  /\ SkipStep
  /\ UNCHANGED <<tid, l, marked>>

\* not logged: status SKIP ends the case after [conf]
TSkipCase ==
  /\ SkipCase /\ UNCHANGED <<tid, l, marked>>

\* 'cleanup' event carries the previous phase told to the cleanup instructions
TCleanupMarker ==
  /\ Consume("cleanup") /\ ~done
  /\ IF inCleanup THEN UNCHANGED vars ELSE ForwardDone
  /\ Ev.prev = prev'
  /\ marked' = FALSE

\* not logged: the cleanup phase has no more instructions
TCleanupDone ==
  /\ CleanupDone /\ UNCHANGED <<tid, l, marked>>

TRemove ==
  /\ Consume("rm") /\ done /\ sds = "removed" /\ mode # "keep" /\ ~Ev.exists
  /\ UNCHANGED <<vars, marked>>

TPartialEnd ==
  /\ Consume("pend") /\ done /\ cwd = "orig" /\ Ev.ok
  /\ Ev.hassds = (sds # "none")
  /\ UNCHANGED <<vars, marked>>

TEnd ==
  /\ Consume("end") /\ done /\ result = <<>>
  /\ Report
  /\ O!Verdict(tcStatus, result'[3]) = Ev.status
  /\ Ev.vstep = (IF result'[3] = "PASS" THEN <<"-", "-">> ELSE <<result'[1], result'[2]>>)
  /\ Ev.hassds = (sds # "none")
  /\ marked' = FALSE

TraceNext == TStepMarker \/ TInstr \/ TAct \/ TSds \/ TChdir \/ TProc \/ TSkipActMode \/ TSkipCase
             \/ TCleanupMarker \/ TCleanupDone \/ TRemove \/ TPartialEnd \/ TEnd
TraceSpec == TraceInit /\ [][TraceNext]_tvars

\* acceptance bookkeeping (needs -workers 1): which traces were consumed completely, and how far each got
ASSUME TLCSet(1, {}) /\ TLCSet(2, [t \in 1..NT |-> 0])
Reached ==
  /\ (l = Len(Tr) + 1 /\ result # <<>>) => TLCSet(1, TLCGet(1) \cup {tid})
  /\ (l > TLCGet(2)[tid]) => TLCSet(2, [TLCGet(2) EXCEPT ![tid] = l])
Accepted == LET r == TLCGet(1) IN
            /\ PrintT(<<"ACCEPTED", Cardinality(r), NT>>)
            /\ \A t \in (1..NT) \ r : PrintT(<<"REJECTED", t, TLCGet(2)[t]>>)
=============================================================================
