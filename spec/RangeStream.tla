----------------------------- MODULE RangeStream -----------------------------
(***************************************************************************)
(* C13, `filter -line-nums RANGE...`: the MECHANISM as coded, against the  *)
(* reference RangeSel of LineFilter.tla.                                   *)
(*                                                                         *)
(* One range: one of ten stream transformers chosen from the signs of the  *)
(* limits; each reads the lines of the text once, front to back, through   *)
(* an iterator, some of them with a "pocket" (a window of the last |k|     *)
(* lines read) so that numbers counted from the end need no second pass.   *)
(* Several ranges: the ranges without negative numbers are partitioned     *)
(* into head limits (lines 1..n), segments and tail limits (n..); if there *)
(* are ranges with negative numbers the lines of the text are counted      *)
(* first, the numbers translated and those ranges partitioned too; the     *)
(* partitioning is merged (segments sorted and fused when they touch, then *)
(* fused with the head and the tail) and one transformer walks the text    *)
(* once: head, segments in increasing order, tail.                         *)
(*                                                                         *)
(* The text is the sequence of its line numbers <<1, .., N>>; an iterator  *)
(* is the index of the next line.  Iterator helpers of the code (_limited, *)
(* _skip, _filled_pocket) are transcribed with their corner cases: a size  *)
(* of 0 consumes nothing, a NEGATIVE size never reaches 0 and consumes     *)
(* everything; the skip loops of the segment walker run "until the line    *)
(* number EQUALS start - 1" and would run to the end of the text if the    *)
(* merge handed them a segment that begins directly after the previous one *)
(* (MergedWellFormed is what protects them).                               *)
(*                                                                         *)
(* State machine: a list of ranges grows one range at a time (every list   *)
(* up to MaxRanges over the four forms with limits in -Bound..Bound).      *)
(* Invariant MechanismExact: for every text length 0..MaxN the mechanism   *)
(* outputs exactly the lines RangeSel selects, in order.                   *)
(* Deviations (sharpness controls, TLC must refute MechanismExact):        *)
(*   "TouchingNotFused"   segments are fused only when they OVERLAP        *)
(*   "PocketOffByOne"     a range FROM a negative number keeps one line    *)
(*                        too few                                          *)
(***************************************************************************)
EXTENDS Integers, Sequences, FiniteSets, SequencesExt, TLC

CONSTANTS MaxN, Bound, MaxRanges, Deviations

Dev(d) == d \in Deviations
None == 0 - 9999
Min2(a, b) == IF a < b THEN a ELSE b
Max2(a, b) == IF a > b THEN a ELSE b
Abs(k) == IF k < 0 THEN 0 - k ELSE k
Lines(N) == [j \in 1..N |-> j]
Sub(N, a, b) == IF a > b \/ a > N \/ b < 1 THEN <<>> ELSE SubSeq(Lines(N), Max2(a, 1), Min2(b, N))

-----------------------------------------------------------------------------
(* Reference (the same as in LineFilter.tla)                                *)
Tr(k, N) == IF k < 0 THEN N + 1 + k ELSE k
InRange(r, n, N) ==
  CASE r[1] = "single" -> n = Tr(r[2], N)
    [] r[1] = "upto" -> n <= Tr(r[2], N)
    [] r[1] = "from" -> n >= Tr(r[2], N)
    [] r[1] = "range" -> Tr(r[2], N) <= n /\ n <= Tr(r[3], N)
RefOut(rs, N) == SelectSeq(Lines(N), LAMBDA n : \E j \in 1..Len(rs) : InRange(rs[j], n, N))

-----------------------------------------------------------------------------
(* Iterator helpers.  An iterator over the text is i, the number of the    *)
(* next line (i = N + 1: exhausted).                                        *)
\* _limited(iterator, size): how many lines it hands out
Taken(N, i, size) == IF size = 0 THEN 0 ELSE IF size < 0 THEN N - i + 1 ELSE Min2(size, N - i + 1)
\* the pocket after _filled_pocket(size) and sliding over all that is left: the last Min(size, N) lines ... when the
\* pocket could be filled; the code distinguishes a pocket that is not full
PocketLen(N, size) == Min2(size, N)

-----------------------------------------------------------------------------
(* The ten transformers of a single range (arguments as the code passes    *)
(* them: zero based non-negative limits, negative numbers as they are)     *)
SingleNonNeg(N, z) == IF z + 1 <= N THEN <<z + 1>> ELSE <<>>
SingleNeg(N, k) == LET p == Abs(k) IN IF PocketLen(N, p) < p THEN <<>> ELSE <<N - p + 1>>
UpperNonNeg(N, z) == Sub(N, 1, z + 1)                      \* yields, then stops when current = limit
UpperNeg(N, k) == LET p == Abs(k) IN IF PocketLen(N, p) < p THEN <<>> ELSE Sub(N, 1, N - p + 1)
LowerNonNeg(N, z) == LET c == Taken(N, 1, z) IN Sub(N, c + 1, N)
LowerNeg(N, k) == LET p == PocketLen(N, Abs(k)) - (IF Dev("PocketOffByOne") /\ N > Abs(k) THEN 1 ELSE 0)
                  IN Sub(N, N - p + 1, N)
LowerNonNegUpperNonNeg(N, lo, up) ==
  LET c == Taken(N, 1, lo)
      t == Taken(N, c + 1, up - lo + 1)
  IN Sub(N, c + 1, c + t)
LowerNonNegUpperNeg(N, lo, k) ==
  LET p == Abs(k) IN
  IF PocketLen(N, p) < p THEN <<>>
  ELSE LET fwd == Taken(N, p + 1, lo)                      \* _forward_pocket_to_lower_limit
       IN IF fwd # lo THEN <<>>
          ELSE Sub(N, lo + 1, N - p + 1)                   \* pocket[0], then one more per line that is left
LowerNegUpperNonNeg(N, k, up) ==
  LET p == PocketLen(N, Abs(k))
      idx == N - p                                         \* pocket_1st_idx after sliding over what was left
  IN IF idx > up THEN <<>> ELSE Sub(N, idx + 1, Min2(N, up + 1))
LowerNegUpperNeg(N, klo, kup) ==
  LET lowerLen == PocketLen(N, Abs(klo))
      upperLen == Abs(kup)
  IN IF lowerLen < Abs(klo) /\ upperLen > lowerLen THEN <<>>
     ELSE Sub(N, N - lowerLen + 1, N - lowerLen + (lowerLen - upperLen + 1))

\* _SingleRangeSourceConstructor: which transformer, with which arguments
SingleOut(r, N) ==
  CASE r[1] = "single" -> (IF r[2] = 0 THEN <<>> ELSE IF r[2] > 0 THEN SingleNonNeg(N, r[2] - 1) ELSE SingleNeg(N, r[2]))
    [] r[1] = "upto"   -> (IF r[2] = 0 THEN <<>> ELSE IF r[2] > 0 THEN UpperNonNeg(N, r[2] - 1) ELSE UpperNeg(N, r[2]))
    [] r[1] = "from"   -> (IF r[2] = 0 THEN LowerNonNeg(N, 0) ELSE IF r[2] > 0 THEN LowerNonNeg(N, r[2] - 1)
                           ELSE LowerNeg(N, r[2]))
    [] r[1] = "range"  ->
         LET lo == r[2]  up == r[3] IN
         IF up = 0 THEN <<>>
         ELSE IF lo >= 0 /\ up >= 0 THEN (IF lo > up THEN <<>>
                                          ELSE LowerNonNegUpperNonNeg(N, IF lo > 0 THEN lo - 1 ELSE lo, up - 1))
         ELSE IF lo >= 0 THEN LowerNonNegUpperNeg(N, IF lo > 0 THEN lo - 1 ELSE lo, up)
         ELSE IF up >= 0 THEN LowerNegUpperNonNeg(N, lo, up - 1)
         ELSE (IF lo > up THEN <<>> ELSE LowerNegUpperNeg(N, lo, up))

-----------------------------------------------------------------------------
(* Several ranges: partition, translate, merge, walk                        *)
HasNeg(r) == r[2] < 0 \/ (r[1] = "range" /\ r[3] < 0)
EmptyPart == [head |-> <<>>, segs |-> <<>>, tail |-> <<>>]
\* _Partitioner (for a range without negative numbers)
PartOne(p, r) ==
  CASE r[1] = "single" -> IF r[2] # 0 THEN [p EXCEPT !.segs = Append(@, <<r[2], r[2]>>)] ELSE p
    [] r[1] = "from"   -> [p EXCEPT !.tail = Append(@, Max2(1, r[2]))]
    [] r[1] = "upto"   -> IF r[2] # 0 THEN [p EXCEPT !.head = Append(@, r[2])] ELSE p
    [] r[1] = "range"  -> IF r[3] # 0
                          THEN (IF r[2] <= 1 THEN [p EXCEPT !.head = Append(@, r[3])]
                                ELSE [p EXCEPT !.segs = Append(@, <<r[2], r[3]>>)])
                          ELSE p
RECURSIVE PartAll(_, _, _)
PartAll(p, rs, j) == IF j > Len(rs) THEN p
                     ELSE PartAll(IF HasNeg(rs[j]) THEN p ELSE PartOne(p, rs[j]), rs, j + 1)
\* _NegValuesTranslator
TrC(n, N) == IF n >= 0 THEN n ELSE Max2(0, N + n + 1)
Translate(r, N) == IF r[1] = "range" THEN <<"range", TrC(r[2], N), TrC(r[3], N)>> ELSE <<r[1], TrC(r[2], N)>>

MaxOf(s) == CHOOSE x \in ToSet(s) : \A y \in ToSet(s) : y <= x
MinOf(s) == CHOOSE x \in ToSet(s) : \A y \in ToSet(s) : x <= y
SegLess(a, b) == a[1] < b[1] \/ (a[1] = b[1] /\ a[2] < b[2])         \* Python's order of tuples
CanBeOne(a, b) == IF Dev("TouchingNotFused") THEN a[2] >= b[1] ELSE a[2] + 1 >= b[1]
RECURSIVE MergeSegs(_, _, _, _)
\* _merge_segments: acc, current, the sorted segments, position
MergeSegs(acc, cur, ss, j) ==
  IF j > Len(ss) THEN Append(acc, cur)
  ELSE IF CanBeOne(cur, ss[j]) THEN MergeSegs(acc, <<cur[1], Max2(cur[2], ss[j][2])>>, ss, j + 1)
       ELSE MergeSegs(Append(acc, cur), ss[j], ss, j + 1)
RECURSIVE MergeHead(_, _, _, _), MergeTail(_, _, _, _)
\* _merge_head_to: -> <<new head, the segments that were not swallowed>>
MergeHead(h, ss, j, rest) ==
  IF j > Len(ss) THEN <<h, rest>>
  ELSE IF ss[j][1] <= h + 1 THEN MergeHead(Max2(h, ss[j][2]), ss, j + 1, rest)
       ELSE MergeHead(h, ss, j + 1, Append(rest, ss[j]))
\* _merge_tail_from: walks the segments from the last one
MergeTail(t, ss, j, rest) ==
  IF j < 1 THEN <<t, rest>>
  ELSE IF ss[j][2] >= t - 1 THEN MergeTail(Min2(t, ss[j][1]), ss, j - 1, rest)
       ELSE MergeTail(t, ss, j - 1, <<ss[j]>> \o rest)
\* merge(): -> [empty, all, head, body, tail]
Merged(p) ==
  LET valid == SelectSeq(p.segs, LAMBDA x : x[1] <= x[2])
      sorted == SortSeq(valid, SegLess)
      head0 == IF p.head = <<>> THEN None ELSE MaxOf(p.head)
      tail0 == IF p.tail = <<>> THEN None ELSE MinOf(p.tail)
  IN IF sorted = <<>> /\ head0 = None /\ tail0 = None
     THEN [empty |-> TRUE, all |-> FALSE, head |-> None, body |-> <<>>, tail |-> None]
     ELSE LET fused == IF sorted = <<>> THEN <<>> ELSE MergeSegs(<<>>, sorted[1], sorted, 2)
              hm == IF head0 = None THEN <<None, fused>> ELSE MergeHead(head0, fused, 1, <<>>)
              tm == IF tail0 = None THEN <<None, hm[2]>> ELSE MergeTail(tail0, hm[2], Len(hm[2]), <<>>)
              head1 == hm[1]
              tail1 == tm[1]
              body1 == tm[2]
              everything == tail1 # None /\ (tail1 = 1 \/ (head1 # None /\ head1 + 1 >= tail1))
              promote == head1 = None /\ body1 # <<>> /\ body1[1][1] = 1
          IN IF everything THEN [empty |-> FALSE, all |-> TRUE, head |-> None, body |-> <<>>, tail |-> None]
             ELSE [empty |-> FALSE, all |-> FALSE,
                   head |-> IF promote THEN body1[1][2] ELSE head1,
                   body |-> IF promote THEN Tail(body1) ELSE body1,
                   tail |-> tail1]
IsEverything(m) == m.all \/ (~m.empty /\ m.head = None /\ m.tail = None /\ m.body = <<>>)

\* _TransformMethodOfSegments: one pass; st = [i: next line, ln: line_num, out]
WalkHead(N, m) ==
  IF m.head = None THEN [i |-> 1, ln |-> 0, out |-> <<>>]
  ELSE LET c == IF m.head >= 1 THEN Min2(m.head, N) ELSE N          \* "until line_num = end"
       IN [i |-> c + 1, ln |-> c, out |-> Sub(N, 1, c)]
\* skip "until line_num = start - 1", then yield "until line_num = end" (both run to the end of the text otherwise)
WalkSeg(N, st, s, e) ==
  LET left == N - st.i + 1
      sk == IF s - 1 > st.ln THEN Min2(s - 1 - st.ln, left) ELSE left
      i1 == st.i + sk
      ln1 == st.ln + sk
      left1 == N - i1 + 1
      yl == IF e > ln1 THEN Min2(e - ln1, left1) ELSE left1
  IN [i |-> i1 + yl, ln |-> ln1 + yl, out |-> st.out \o Sub(N, i1, i1 + yl - 1)]
RECURSIVE WalkBody(_, _, _, _)
WalkBody(N, st, body, j) == IF j > Len(body) THEN st ELSE WalkBody(N, WalkSeg(N, st, body[j][1], body[j][2]), body, j + 1)
WalkTail(N, st, t) ==
  IF t = None THEN st.out
  ELSE LET left == N - st.i + 1
           sk == IF t - 1 > st.ln THEN Min2(t - 1 - st.ln, left) ELSE left
       IN st.out \o Sub(N, st.i + sk, N)
SegmentsOut(N, m) == WalkTail(N, WalkBody(N, WalkHead(N, m), m.body, 1), m.tail)

\* MultipleLineRangesTransformer.transform
MultiOut(rs, N) ==
  LET p0 == PartAll(EmptyPart, rs, 1)
      negs == SelectSeq(rs, HasNeg)
      \* ranges with negative numbers: the lines are counted, the numbers translated, partitioned into the same object
      p1 == IF negs = <<>> THEN p0
            ELSE PartAll(p0, [j \in 1..Len(negs) |-> Translate(negs[j], N)], 1)
      m == Merged(p1)
  IN IF m.empty THEN <<>> ELSE IF IsEverything(m) THEN Lines(N) ELSE SegmentsOut(N, m)

MechOut(rs, N) == IF Len(rs) = 1 THEN SingleOut(rs[1], N) ELSE MultiOut(rs, N)

-----------------------------------------------------------------------------
Lim == (0 - Bound)..Bound
RangeSpecs == {<<"single", a>> : a \in Lim} \cup {<<"upto", a>> : a \in Lim}
              \cup {<<"from", a>> : a \in Lim} \cup {<<"range", a, b>> : a \in Lim, b \in Lim}

VARIABLE rs
Init == rs = <<>>
AddRange(r) == Len(rs) < MaxRanges /\ rs' = Append(rs, r)
Next == \E r \in RangeSpecs : AddRange(r)
Spec == Init /\ [][Next]_rs

\* the mechanism outputs exactly the selected lines, in order, for every text length
MechanismExact == rs # <<>> => \A N \in 0..MaxN : MechOut(rs, N) = RefOut(rs, N)
\* a single range is also what the general mechanism makes of a list of one
SingleAgreesWithMulti == Len(rs) = 1 => \A N \in 0..MaxN : SingleOut(rs[1], N) = MultiOut(rs, N)
\* what protects the walker's "until equal" loops: head, segments and tail are strictly apart and in order
MergedWellFormed ==
  rs # <<>> => \A N \in 0..MaxN :
    LET m == Merged(PartAll(PartAll(EmptyPart, rs, 1),
                            [j \in 1..Len(SelectSeq(rs, HasNeg)) |-> Translate(SelectSeq(rs, HasNeg)[j], N)], 1))
    IN (~m.empty /\ ~m.all) =>
         /\ \A j \in 1..Len(m.body) : m.body[j][1] <= m.body[j][2] /\ m.body[j][1] >= 2
         /\ \A j \in 1..(Len(m.body) - 1) : m.body[j][2] + 2 <= m.body[j + 1][1]
         /\ (m.head # None /\ m.body # <<>>) => m.head + 2 <= m.body[1][1]
         /\ (m.tail # None /\ m.body # <<>>) => m.body[Len(m.body)][2] + 2 <= m.tail
         /\ (m.head # None /\ m.tail # None) => m.head + 2 <= m.tail
=============================================================================
