--------------------------- MODULE IntervalLemmas ---------------------------
(***************************************************************************)
(* C13, unbounded part (Apalache).  The induction steps of IntervalSound   *)
(* and InversionSound of LineFilter.tla, for ALL integer operands, line    *)
(* numbers and intervals (TLC checks the induction's conclusion for every  *)
(* expression up to a size bound with operands from a small set).          *)
(*                                                                         *)
(* The state is one arbitrary instance of a lemma: two interval pairs x, y *)
(* (cover, cover of the complement), a number n, whether the operand       *)
(* expressions accept n (pa, pb), a comparison (op, k).  Init chooses all  *)
(* of it freely; the invariants are checked in the initial states only     *)
(* (apalache-mc check --length=0): an SMT query over unbounded integers.   *)
(*                                                                         *)
(*   Sound(x, p)    p => n in x.pos   and   ~p => n in x.inv               *)
(*   LeafLemma      the interval of `n op k` is Sound for Cmp(op, n, k)    *)
(*   NaturalLemma   a natural pair is Sound for membership in its cover    *)
(*   CombineLemmaI  integer-matcher level: Sound operands give a Sound     *)
(*                  union / intersection (inversion by De Morgan)          *)
(*   CombineLemmaL  line-matcher level, n >= 1: covers of the operands     *)
(*                  give a cover of the combination                        *)
(*   AdaptLemma     adaption to line numbers loses no n >= 1               *)
(*   NegLemmaL      line-matcher level: covers of the negated operands     *)
(*                  give a cover of the negated combination                *)
(* Sharpness: D1Refuted is the CombineLemmaI claim for the combination as  *)
(* coded before the repair of D1; Apalache must produce a counterexample.  *)
(***************************************************************************)
EXTENDS IntervalOps

VARIABLES
  \* @type: {pos: {k: Str, l: Int, u: Int}, inv: {k: Str, l: Int, u: Int}};
  x,
  \* @type: {pos: {k: Str, l: Int, u: Int}, inv: {k: Str, l: Int, u: Int}};
  y,
  \* @type: Int;
  n,
  \* @type: Int;
  k,
  \* @type: Str;
  op,
  \* @type: Bool;
  pa,
  \* @type: Bool;
  pb,
  \* @type: Bool;
  isUnion

\* a "fin" interval built by the algebra is never inverted bounds (Intersection / AdaptLine test for it)
\* @type: {k: Str, l: Int, u: Int} => Bool;
WellFormed(p) == p.k = "fin" => p.l <= p.u

Free ==
  /\ \E k1 \in Kinds, k2 \in Kinds, k3 \in Kinds, k4 \in Kinds :
       \E l1 \in Int, u1 \in Int, l2 \in Int, u2 \in Int, l3 \in Int, u3 \in Int, l4 \in Int, u4 \in Int :
          /\ x = Pair(Mk(k1, l1, u1), Mk(k2, l2, u2))
          /\ y = Pair(Mk(k3, l3, u3), Mk(k4, l4, u4))
  /\ n \in Int /\ k \in Int
  /\ op \in {"==", "!=", "<", "<=", ">", ">="}
  /\ pa \in BOOLEAN /\ pb \in BOOLEAN /\ isUnion \in BOOLEAN

\* the lemmas need no hypothesis about the intervals (InitAny); InitWF adds what the algebra maintains (ClosedLemma)
InitAny == Free
Init == Free /\ WellFormed(x.pos) /\ WellFormed(x.inv) /\ WellFormed(y.pos) /\ WellFormed(y.inv)

Next == UNCHANGED <<x, y, n, k, op, pa, pb, isUnion>>

\* @type: ({pos: {k: Str, l: Int, u: Int}, inv: {k: Str, l: Int, u: Int}}, Bool) => Bool;
Sound(z, p) == (p => In(n, z.pos)) /\ (~p => In(n, z.inv))
Comb == IF isUnion THEN pa \/ pb ELSE pa /\ pb

LeafLemma == Sound(LeafInterval(op, k), Cmp(op, n, k))
NaturalLemma == Sound(Natural(x.pos), In(n, x.pos))
CombineLemmaI == (Sound(x, pa) /\ Sound(y, pb)) => Sound(BinOp("i", isUnion, x, y), Comb)
CombineLemmaL == (n >= 1 /\ (pa => In(n, x.pos)) /\ (pb => In(n, y.pos)))
                   => (Comb => In(n, BinOp("l", isUnion, x, y).pos))
AdaptLemma == (n >= 1 /\ In(n, x.pos)) => In(n, AdaptLine(x).pos)
\* N("l", and(e1, e2)) = P("l", or(not e1, not e2)): x, y cover the NEGATED operands
NegLemmaL == (n >= 1 /\ (~pa => In(n, x.pos)) /\ (~pb => In(n, y.pos)))
               => (~Comb => In(n, AdaptLine(BinOp("l", ~isUnion, x, y)).pos))
\* the results are well formed again (the hypothesis of the next induction step)
ClosedLemma == /\ WellFormed(BinOp("i", isUnion, x, y).pos) /\ WellFormed(BinOp("i", isUnion, x, y).inv)
               /\ WellFormed(BinOp("l", isUnion, x, y).pos) /\ WellFormed(AdaptLine(x).pos)
               /\ WellFormed(LeafInterval(op, k).pos) /\ WellFormed(LeafInterval(op, k).inv)

Lemmas == LeafLemma /\ NaturalLemma /\ CombineLemmaI /\ CombineLemmaL /\ AdaptLemma /\ NegLemmaL /\ ClosedLemma
CoreLemmas == LeafLemma /\ NaturalLemma /\ CombineLemmaI /\ CombineLemmaL /\ AdaptLemma /\ NegLemmaL

\* sharpness control: the combination before the repair of D1 is NOT sound
D1Refuted == (Sound(x, pa) /\ Sound(y, pb)) => Sound(BinOpD1("i", isUnion, x, y), Comb)
=============================================================================
