------------------------------- MODULE Suite -------------------------------
(***************************************************************************)
(* C16: `exactly suite [--reporter R] FILE` - reading a suite hierarchy,   *)
(* running its cases, and what the two reporters say about the run.        *)
(*                                                                         *)
(* The file system is abstract: suite files 0..NSub (0 = the file given on *)
(* the command line; every other one is the default suite file of its own  *)
(* directory) and case files 1..NCases; names sort like the numbers.       *)
(* An input x says what is written in the suite files:                     *)
(*    x.sl[s+1]  the lines of [suites] of suite s                          *)
(*    x.cl[s+1]  the lines of [cases] of suite s                           *)
(*    x.syn      the suite files that contain a syntax error               *)
(*    x.vd[c]    the scripted kind of case c (how it ends)                 *)
(* A line is [k |-> kind, t |-> set of files it resolves to]: a plain file *)
(* name, another spelling of it ("alt"), a directory ("dir": its default   *)
(* suite file), a glob pattern (any number of matches, taken in sorted     *)
(* order) or a name that does not exist ("missing").                       *)
(*                                                                         *)
(* The run is a step machine in the order of the code:                     *)
(*   read   the depth-first reader with its visited set; per suite file:   *)
(*          parse, resolve every [suites] line (double inclusion check),   *)
(*          resolve every [cases] line, then read the sub-suites in turn   *)
(*   enumerate  sub-suites before the suite that lists them                *)
(*   run    per suite: begin, one step per case, end                       *)
(*   report progress reporter / JUnit reporter / invalid suite             *)
(*                                                                         *)
(* Beside the machine stands a declarative reading of the same input       *)
(* (reachability, in-degree, post-order); the invariants relate the two    *)
(* and state the clauses of the property.                                  *)
(***************************************************************************)
EXTENDS Naturals, Sequences, FiniteSets, TLC, Json, IOUtils

CONSTANTS NSub,        \* sub-suite files that exist: 1..NSub
          NCases,      \* case files that exist: 1..NCases
          Families,    \* which generators of inputs are explored: subset of {"struct","verdict","listing","file"}
          Reporters,   \* subset of {"progress", "junit"}
          Deviations,  \* named deviations (known findings) switched on; {} whenever a property is checked
          \* bounds of the generators (see the end of the declarative part)
          SuiteKinds, MaxSuiteLines, MaxSuiteWidth,     \* family "struct"
          VerdictKinds, MaxVerdictCases,                \* family "verdict": every assignment of every kind
          ClassKinds, MaxClassCases,                    \* family "verdict": more cases, one kind per class
          ListCases, MaxCaseLines                       \* family "listing"

Root == 0
Suites == 0..NSub
Cases == 1..NCases
\* Named deviations of the program from this specification (DESIGN.md section 8).  A check always runs with
\* Deviations = {}; the export also says what one deviation alone would make of a run.
\*   JUnitActSyntaxIsSuccess (finding D6): the JUnit reporter takes a case whose [act] phase has a syntax error
\*     for a successful one - no failure/error element, counted in neither `failures` nor `errors`
DeviationNames == {"JUnitActSyntaxIsSuccess"}

\* ---- how a case ends -------------------------------------------------------------------------
Kinds == {"PASS", "FAIL", "XFAIL", "XPASS", "SKIPPED", "HARD_ERROR", "VALIDATION_ERROR", "SYNTAX_ERROR",
          "ACT_SYNTAX_ERROR", "FILE_ACCESS_ERROR", "UNREADABLE", "PRE_PROCESS_ERROR", "INTERNAL_ERROR", "UNDECODABLE"}
\* the exit identifier the case is reported with ("SOME_ERROR": the case cannot be processed at all - its file
\* is not text - and which of the error identifiers names that is left open)
Ident(k) == CASE k = "ACT_SYNTAX_ERROR" -> "SYNTAX_ERROR"
              [] k = "UNREADABLE"       -> "FILE_ACCESS_ERROR"
              [] k = "UNDECODABLE"      -> "SOME_ERROR"
              [] OTHER                  -> k
\* the case gets as far as executing its first [setup] instruction (which leaves a mark)
Executes(k) == k \in {"PASS", "FAIL", "XFAIL", "XPASS", "HARD_ERROR", "INTERNAL_ERROR"}
\* the documented success class of the progress reporter
SuccessIdents == {"PASS", "SKIPPED", "XFAIL"}
Successful(k) == Ident(k) \in SuccessIdents

\* ---- little helpers --------------------------------------------------------------------------
RECURSIVE SortedSeq(_)
SortedSeq(S) == IF S = {} THEN <<>>
                ELSE LET m == CHOOSE a \in S : \A b \in S : a <= b IN <<m>> \o SortedSeq(S \ {m})
RECURSIVE SumSeq(_)
SumSeq(q) == IF q = <<>> THEN 0 ELSE Head(q) + SumSeq(Tail(q))
RECURSIVE Flat(_)
Flat(qq) == IF qq = <<>> THEN <<>> ELSE Head(qq) \o Flat(Tail(qq))
Range(q) == {q[j] : j \in DOMAIN q}
Count(q, e) == Cardinality({j \in DOMAIN q : q[j] = e})
\* the files a section resolves to, in the order they are taken (lines that name nothing resolve to nothing)
Resolved(lines) == Flat([j \in DOMAIN lines |-> IF lines[j].k = "missing" THEN <<>> ELSE SortedSeq(lines[j].t)])
HasMissing(lines) == \E j \in DOMAIN lines : lines[j].k = "missing"

\* ==============================================================================================
\* Declarative reading of an input x
\* ==============================================================================================
SL(x, s) == x.sl[s + 1]
CL(x, s) == x.cl[s + 1]
RefSeq(x, s) == Resolved(SL(x, s))
RefSet(x, s) == UNION {SL(x, s)[j].t : j \in DOMAIN SL(x, s)}
RECURSIVE ReachN(_, _, _)
ReachN(x, S, n) == IF n = 0 THEN S ELSE ReachN(x, S \cup UNION {RefSet(x, s) : s \in S}, n - 1)
Reach(x) == ReachN(x, {Root}, NSub + 1)
\* number of times suite j is included: the command line (the root) + every referring line of a suite in R
InDegIn(x, R, j) == (IF j = Root THEN 1 ELSE 0)
                    + SumSeq([q \in 1..(NSub + 1) |-> IF (q - 1) \in R THEN Count(RefSeq(x, q - 1), j) ELSE 0])
DeclErrors(x) ==
  LET R == Reach(x) IN
  (IF \E s \in R : s \in x.syn THEN {"syntax"} ELSE {})
  \cup (IF \E s \in R : HasMissing(SL(x, s)) \/ HasMissing(CL(x, s)) THEN {"missing"} ELSE {})
  \cup (IF \E s \in R : InDegIn(x, R, s) >= 2 THEN {"double"} ELSE {})
DeclInvalid(x) == DeclErrors(x) # {}
\* processing order of a valid hierarchy (a tree then): sub-suites, in listing order, before the suite
RECURSIVE DOrder(_, _), DOrderSeq(_, _)
DOrder(x, s) == DOrderSeq(x, RefSeq(x, s)) \o <<s>>
DOrderSeq(x, ss) == IF ss = <<>> THEN <<>> ELSE DOrder(x, Head(ss)) \o DOrderSeq(x, Tail(ss))
DCasesOf(x, s) == Resolved(CL(x, s))
DCases(x) == LET o == DOrder(x, Root) IN Flat([j \in DOMAIN o |-> DCasesOf(x, o[j])])
Listed(x) == UNION {Range(DCasesOf(x, s)) : s \in Reach(x)}
\* no case file is listed by two lines (what the program should do then is not documented: not explored)
NoCaseListedTwice(x) ==
  LET R == Reach(x)
      all == Flat([q \in 1..(NSub + 1) |-> IF (q - 1) \in R THEN DCasesOf(x, q - 1) ELSE <<>>])
  IN \A c \in Cases : Count(all, c) <= 1

\* ==============================================================================================
\* Generators of inputs.  They take their bounds as arguments (so TLC evaluates them in Init only).
\* ==============================================================================================
Line(k, T) == [k |-> k, t |-> T]
NoLines == [q \in 1..(NSub + 1) |-> <<>>]
AllPass == [c \in Cases |-> "PASS"]
\* all tuples <<q_1 .. q_n>> with q_j a sequence of length p[j] over S
RECURSIVE Tuples(_, _, _)
Tuples(S, p, j) == IF j > Len(p) THEN {<<>>}
                   ELSE {<<q>> \o r : q \in [1..p[j] -> S], r \in Tuples(S, p, j + 1)}
Profiles(n, w, total) == {p \in [1..n -> 0..w] : SumSeq(p) <= total}

\* ---- family "struct": every hierarchy up to `total` reference lines, every kind of reference ------------
SuiteLineSet(kinds) ==
  {ln \in {Line("plain", {j}) : j \in Suites}
          \cup {Line(k, {j}) : k \in {"alt", "dir"}, j \in 1..NSub}
          \cup {Line("glob", T) : T \in SUBSET (1..NSub)}
          \cup {Line("missing", {})} : ln.k \in kinds}
Shell(sl) == [fam |-> "struct", sl |-> sl, cl |-> NoLines, syn |-> {}, vd |-> AllPass]
\* canonical: suites that cannot be reached are empty; the suites referred to are 1..m (a renaming that keeps
\* the order of the names keeps everything the machine looks at)
CanonicalSl(sl) ==
  LET referred == UNION {UNION {sl[q][j].t : j \in DOMAIN sl[q]} : q \in DOMAIN sl} \ {Root} IN
  /\ referred = 1..Cardinality(referred)
  /\ \A s \in Suites \ Reach(Shell(sl)) : sl[s + 1] = <<>>
\* every reachable sub-suite s lists its own case s + 1; the root lists case 1 or nothing
StructVd == [c \in Cases |-> <<"PASS", "FAIL", "XFAIL", "HARD_ERROR">>[((c - 1) % 4) + 1]]
StructCl(sl, rootHasCase) ==
  LET R == Reach(Shell(sl)) IN
  [q \in 1..(NSub + 1) |-> IF (q - 1) \notin R \/ q > NCases THEN <<>>
                           ELSE IF q = 1 /\ ~rootHasCase THEN <<>>
                           ELSE <<Line("plain", {q})>>]
\* a hierarchy with an error is explored once (nothing is run); a valid one also without a case in the root,
\* with every case passing, and with a syntax error in each of its suite files in turn
StructVariants(sl) ==
  LET mk(rc, vd, y) == [fam |-> "struct", sl |-> sl, cl |-> StructCl(sl, rc), syn |-> y, vd |-> vd]
      base == mk(TRUE, StructVd, {})
  IN IF DeclInvalid(base) THEN {base}
     ELSE {base, mk(FALSE, StructVd, {}), mk(TRUE, AllPass, {})}
          \cup {mk(TRUE, StructVd, {s}) : s \in Reach(base)}
StructInputs(kinds, width, total) ==
  UNION {UNION {StructVariants(sl) : sl \in {t \in Tuples(SuiteLineSet(kinds), p, 1) : CanonicalSl(t)}}
           : p \in Profiles(NSub + 1, width, total)}

\* ---- family "verdict": every assignment of kinds to the cases of a few simple hierarchies -----------------
PlainCases(S) == LET q == SortedSeq(S) IN [j \in DOMAIN q |-> Line("plain", {q[j]})]
OneSubSl(k) == [q \in 1..(NSub + 1) |-> IF q = 1 THEN <<Line(k, {1})>> ELSE <<>>]
\* shapes over n cases: all in the root; the first in a sub-suite; the last in a sub-suite
VerdictShapes(n) ==
  {[sl |-> NoLines, cl |-> [q \in 1..(NSub + 1) |-> IF q = 1 THEN PlainCases(1..n) ELSE <<>>]]}
  \cup (IF n >= 1 /\ NSub >= 1
        THEN {[sl |-> OneSubSl("dir"),
               cl |-> [q \in 1..(NSub + 1) |-> IF q = 1 THEN PlainCases(2..n)
                                               ELSE IF q = 2 THEN PlainCases({1}) ELSE <<>>]],
              [sl |-> OneSubSl("plain"),
               cl |-> [q \in 1..(NSub + 1) |-> IF q = 1 THEN PlainCases(1..(n - 1))
                                               ELSE IF q = 2 THEN PlainCases({n}) ELSE <<>>]]}
        ELSE {})
Assignments(n, K) == {[c \in Cases |-> IF c <= n THEN a[c] ELSE "PASS"] : a \in [1..n -> K]}
VerdictInputsOver(ns, K) ==
  UNION {{[fam |-> "verdict", sl |-> sh.sl, cl |-> sh.cl, syn |-> {}, vd |-> vd] :
            sh \in VerdictShapes(n), vd \in Assignments(n, K)} : n \in ns}
VerdictInputs(K, n, classK, classN) ==
  VerdictInputsOver(0..n, K) \cup VerdictInputsOver((n + 1)..classN, classK)

\* ---- family "listing": every way of listing the cases 1..lc (plain, glob, missing; any order) -------------
CaseLineSet(lc) == {Line("plain", {c}) : c \in 1..lc}
                   \cup {Line("glob", T) : T \in SUBSET (1..lc)}
                   \cup {Line("missing", {})}
ListVd == [c \in Cases |-> <<"FAIL", "PASS", "XFAIL", "SKIPPED", "HARD_ERROR">>[((c - 1) % 5) + 1]]
ListingShapes == {NoLines} \cup (IF NSub >= 1 THEN {OneSubSl("plain")} ELSE {})
ListingInputs(lc, total) ==
  UNION {
    {x \in {[fam |-> "listing", sl |-> sl,
             cl |-> [q \in 1..(NSub + 1) |-> IF q <= 2 THEN t[q] ELSE <<>>], syn |-> {}, vd |-> ListVd] :
               sl \in ListingShapes, t \in Tuples(CaseLineSet(lc), p, 1)} :
        /\ NoCaseListedTwice(x)
        /\ \A s \in Suites \ Reach(x) : CL(x, s) = <<>>}
    : p \in Profiles(IF NSub >= 1 THEN 2 ELSE 1, total, total)}

\* ---- family "file": inputs written by the harness (seeded random hierarchies beyond the bounds above) -----
\* one JSON object per line; sets arrive as arrays
FromJson(r) ==
  LET lines(qq) == [q \in DOMAIN qq |-> [j \in DOMAIN qq[q] |-> Line(qq[q][j].k, Range(qq[q][j].t))]] IN
  [fam |-> "file", sl |-> lines(r.sl), cl |-> lines(r.cl), syn |-> Range(r.syn), vd |-> r.vd]
FileInputs(file) == {FromJson(r) : r \in Range(ndJsonDeserialize(file))}
WellFormed(x) ==
  /\ Len(x.sl) = NSub + 1 /\ Len(x.cl) = NSub + 1 /\ Len(x.vd) = NCases
  /\ x.syn \subseteq Suites /\ Range(x.vd) \subseteq Kinds
  /\ \A q \in 1..(NSub + 1) :
       /\ \A j \in DOMAIN x.sl[q] : x.sl[q][j].t \subseteq Suites
                                    /\ x.sl[q][j].k \in {"plain", "alt", "dir", "glob", "missing"}
       /\ \A j \in DOMAIN x.cl[q] : x.cl[q][j].t \subseteq Cases /\ x.cl[q][j].k \in {"plain", "glob", "missing"}

InputsOf(f) == CASE f = "struct"  -> StructInputs(SuiteKinds, MaxSuiteWidth, MaxSuiteLines)
                 [] f = "verdict" -> VerdictInputs(VerdictKinds, MaxVerdictCases, ClassKinds, MaxClassCases)
                 [] f = "listing" -> ListingInputs(ListCases, MaxCaseLines)
                 [] f = "file"    -> FileInputs(IOEnv.SUITE_INPUTS)

\* ==============================================================================================
\* The machine
\* ==============================================================================================
VARIABLES inp, rep,          \* the input and the reporter (chosen in Init)
          pc,                \* "read" | "enumerate" | "run" | "done"
          stack,             \* reader: one frame per suite file being read
          visited,           \* reader: suite files seen so far
          tree,              \* reader: the hierarchy read so far  [s -> [read, subs, cases]]
          err,               \* <<>> or <<kind, suite, line>>
          order, qi, ci,     \* processing order of the suites, position in it, position in the suite (0 = not begun)
          log,               \* progress events <<"B", s>> <<"C", c, identifier>> <<"E", s>>
          marks,             \* cases that executed something, in order
          results,           \* [s, c, k] per processed case
          exit, final, junit \* the report: exit code, last line of stdout (progress), document (JUnit)
vars == <<inp, rep, pc, stack, visited, tree, err, order, qi, ci, log, marks, results, exit, final, junit>>

NoExit == 255
NoDoc == [root |-> "-", suites |-> <<>>]
Frame(s) == [s |-> s, ph |-> "parse", i |-> 1, subs |-> <<>>, cases |-> <<>>]
Top == stack[Len(stack)]
WithTop(f) == [stack EXCEPT ![Len(stack)] = f]

Init ==
  /\ \E f \in Families : inp \in InputsOf(f)
  /\ WellFormed(inp)
  /\ rep \in Reporters
  /\ pc = "read" /\ stack = <<Frame(Root)>> /\ visited = {Root}
  /\ tree = [s \in Suites |-> [read |-> FALSE, subs |-> <<>>, cases |-> <<>>]]
  /\ err = <<>> /\ order = <<>> /\ qi = 1 /\ ci = 0
  /\ log = <<>> /\ marks = <<>> /\ results = <<>>
  /\ exit = NoExit /\ final = "-" /\ junit = NoDoc

Reading == pc = "read" /\ err = <<>> /\ stack # <<>>

\* ---- read: suite_file_reading.read_suite_document ---------------------------------------------
ParseSuite ==
  /\ Reading /\ Top.ph = "parse"
  /\ IF Top.s \in inp.syn
     THEN err' = <<"syntax", Top.s, 0>> /\ UNCHANGED stack
     ELSE stack' = WithTop([Top EXCEPT !.ph = "suites"]) /\ UNCHANGED err
  /\ UNCHANGED <<inp, rep, pc, visited, tree, order, qi, ci, log, marks, results, exit, final, junit>>

\* ---- read: one line of [suites]: resolve, then check every path for double inclusion ----------
ResolveSuiteLine ==
  /\ Reading /\ Top.ph = "suites" /\ Top.i <= Len(SL(inp, Top.s))
  /\ LET ln == SL(inp, Top.s)[Top.i] IN
     IF ln.k = "missing"
     THEN err' = <<"missing", Top.s, Top.i>> /\ UNCHANGED <<stack, visited>>
     ELSE IF ln.t \cap visited # {}
     THEN err' = <<"double", Top.s, Top.i>> /\ UNCHANGED <<stack, visited>>
     ELSE /\ visited' = visited \cup ln.t
          /\ stack' = WithTop([Top EXCEPT !.i = @ + 1, !.subs = @ \o SortedSeq(ln.t)])
          /\ UNCHANGED err
  /\ UNCHANGED <<inp, rep, pc, tree, order, qi, ci, log, marks, results, exit, final, junit>>

SuitesSectionDone ==
  /\ Reading /\ Top.ph = "suites" /\ Top.i > Len(SL(inp, Top.s))
  /\ stack' = WithTop([Top EXCEPT !.ph = "cases", !.i = 1])
  /\ UNCHANGED <<inp, rep, pc, visited, tree, err, order, qi, ci, log, marks, results, exit, final, junit>>

\* ---- read: one line of [cases] ------------------------------------------------------------------
ResolveCaseLine ==
  /\ Reading /\ Top.ph = "cases" /\ Top.i <= Len(CL(inp, Top.s))
  /\ LET ln == CL(inp, Top.s)[Top.i] IN
     IF ln.k = "missing"
     THEN err' = <<"missing", Top.s, Top.i>> /\ UNCHANGED stack
     ELSE stack' = WithTop([Top EXCEPT !.i = @ + 1, !.cases = @ \o SortedSeq(ln.t)]) /\ UNCHANGED err
  /\ UNCHANGED <<inp, rep, pc, visited, tree, order, qi, ci, log, marks, results, exit, final, junit>>

CasesSectionDone ==
  /\ Reading /\ Top.ph = "cases" /\ Top.i > Len(CL(inp, Top.s))
  /\ stack' = WithTop([Top EXCEPT !.ph = "subs", !.i = 1])
  /\ UNCHANGED <<inp, rep, pc, visited, tree, err, order, qi, ci, log, marks, results, exit, final, junit>>

\* ---- read: the sub-suites, one after the other, each completely ---------------------------------
Descend ==
  /\ Reading /\ Top.ph = "subs" /\ Top.i <= Len(Top.subs)
  /\ stack' = Append(stack, Frame(Top.subs[Top.i]))
  /\ UNCHANGED <<inp, rep, pc, visited, tree, err, order, qi, ci, log, marks, results, exit, final, junit>>

Return ==
  /\ Reading /\ Top.ph = "subs" /\ Top.i > Len(Top.subs)
  /\ tree' = [tree EXCEPT ![Top.s] = [read |-> TRUE, subs |-> Top.subs, cases |-> Top.cases]]
  /\ IF Len(stack) = 1
     THEN stack' = <<>> /\ pc' = "enumerate"
     ELSE LET up == stack[Len(stack) - 1] IN
          /\ stack' = [SubSeq(stack, 1, Len(stack) - 1) EXCEPT ![Len(stack) - 1] = [up EXCEPT !.i = @ + 1]]
          /\ UNCHANGED pc
  /\ UNCHANGED <<inp, rep, visited, err, order, qi, ci, log, marks, results, exit, final, junit>>

\* ---- an error while reading: nothing is run ------------------------------------------------------
ReportInvalid ==
  /\ pc = "read" /\ err # <<>>
  /\ exit' = 3
  /\ final' = IF rep = "progress" THEN "INVALID_SUITE" ELSE "-"
  /\ pc' = "done"
  /\ UNCHANGED <<inp, rep, stack, visited, tree, err, order, qi, ci, log, marks, results, junit>>

\* ---- enumerate: DepthFirstEnumerator ---------------------------------------------------------------
RECURSIVE PostOrder(_, _), PostOrderSeq(_, _)
PostOrder(t, s) == PostOrderSeq(t, t[s].subs) \o <<s>>
PostOrderSeq(t, ss) == IF ss = <<>> THEN <<>> ELSE PostOrder(t, Head(ss)) \o PostOrderSeq(t, Tail(ss))

Enumerate ==
  /\ pc = "enumerate"
  /\ order' = PostOrder(tree, Root) /\ qi' = 1 /\ ci' = 0
  /\ pc' = "run"
  /\ UNCHANGED <<inp, rep, stack, visited, tree, err, log, marks, results, exit, final, junit>>

\* ---- run ------------------------------------------------------------------------------------------
Running == pc = "run" /\ qi <= Len(order)
Cur == order[qi]

SuiteBegin ==
  /\ Running /\ ci = 0
  /\ log' = Append(log, <<"B", Cur>>) /\ ci' = 1
  /\ UNCHANGED <<inp, rep, pc, stack, visited, tree, err, order, qi, marks, results, exit, final, junit>>

RunCase ==
  /\ Running /\ ci >= 1 /\ ci <= Len(tree[Cur].cases)
  /\ LET c == tree[Cur].cases[ci]
         k == inp.vd[c] IN
     /\ log' = Append(log, <<"C", c, Ident(k)>>)
     /\ marks' = IF Executes(k) THEN Append(marks, c) ELSE marks
     /\ results' = Append(results, [s |-> Cur, c |-> c, k |-> k])
  /\ ci' = ci + 1
  /\ UNCHANGED <<inp, rep, pc, stack, visited, tree, err, order, qi, exit, final, junit>>

SuiteEnd ==
  /\ Running /\ ci > Len(tree[Cur].cases)
  /\ log' = Append(log, <<"E", Cur>>) /\ qi' = qi + 1 /\ ci' = 0
  /\ UNCHANGED <<inp, rep, pc, stack, visited, tree, err, order, marks, results, exit, final, junit>>

\* ---- report -----------------------------------------------------------------------------------------
Unsuccessful(res) == {j \in DOMAIN res : ~Successful(res[j].k)}

ReportProgress ==
  /\ pc = "run" /\ qi > Len(order) /\ rep = "progress"
  /\ IF Unsuccessful(results) = {} THEN exit' = 0 /\ final' = "OK" ELSE exit' = 4 /\ final' = "ERROR"
  /\ pc' = "done"
  /\ UNCHANGED <<inp, rep, stack, visited, tree, err, order, qi, ci, log, marks, results, junit>>

\* what the JUnit reporter takes for a case without failure or error
JUnitOk(k, dev) == Successful(k) \/ ("JUnitActSyntaxIsSuccess" \in dev /\ k = "ACT_SYNTAX_ERROR")
JUnitSuite(res, s, dev) ==
  LET mine == SelectSeq(res, LAMBDA r : r.s = s) IN
  [s |-> s, tests |-> Len(mine),
   bad |-> Cardinality({j \in DOMAIN mine : ~JUnitOk(mine[j].k, dev)}),        \* failures + errors
   cases |-> [j \in DOMAIN mine |-> [c |-> mine[j].c,
                                     child |-> IF JUnitOk(mine[j].k, dev) THEN "none" ELSE "bad"]]]
JUnitDoc(ord, res, dev) ==
  [root |-> IF Len(ord) = 1 THEN "testsuite" ELSE "testsuites",
   suites |-> [j \in DOMAIN ord |-> JUnitSuite(res, ord[j], dev)]]

ReportJUnit ==
  /\ pc = "run" /\ qi > Len(order) /\ rep = "junit"
  /\ junit' = JUnitDoc(order, results, Deviations)
  /\ exit' = 0
  /\ pc' = "done"
  /\ UNCHANGED <<inp, rep, stack, visited, tree, err, order, qi, ci, log, marks, results, final>>

Next == ParseSuite \/ ResolveSuiteLine \/ SuitesSectionDone \/ ResolveCaseLine \/ CasesSectionDone
        \/ Descend \/ Return \/ ReportInvalid \/ Enumerate \/ SuiteBegin \/ RunCase \/ SuiteEnd
        \/ ReportProgress \/ ReportJUnit
Spec == Init /\ [][Next]_vars

\* ==============================================================================================
\* Properties
\* ==============================================================================================
Done == pc = "done"
Valid == err = <<>>
CaseEvents == SelectSeq(log, LAMBDA e : e[1] = "C")
RanCases == [j \in DOMAIN CaseEvents |-> CaseEvents[j][2]]
Pos(e) == CHOOSE j \in DOMAIN log : log[j] = e

TypeOK ==
  /\ pc \in {"read", "enumerate", "run", "done"}
  /\ visited \subseteq Suites /\ Root \in visited
  /\ exit \in {NoExit, 0, 3, 4}
  /\ Range(marks) \subseteq Cases
  /\ Deviations \subseteq DeviationNames

\* the reader finds an error exactly when the input has one: a syntax error or a missing file in a reachable
\* suite file, or a suite file that is included twice (which covers every cycle)
InvalidIffDeclared ==
  Done => /\ (~Valid) <=> DeclInvalid(inp)
          /\ (~Valid) => err[1] \in DeclErrors(inp)
\* an invalid suite: exit 3 whatever the reporter, and nothing was run - at no moment
InvalidRunsNothing ==
  /\ (pc = "read") => (log = <<>> /\ marks = <<>> /\ results = <<>>)
  /\ (~Valid) => (log = <<>> /\ marks = <<>> /\ results = <<>> /\ junit = NoDoc)
  /\ (Done /\ ~Valid) => (exit = 3 /\ final = (IF rep = "progress" THEN "INVALID_SUITE" ELSE "-"))
\* a valid suite: every listed case is processed exactly once, in the declared order; nothing else is
EveryCaseOnce ==
  (Done /\ Valid /\ NoCaseListedTwice(inp)) =>
     /\ RanCases = DCases(inp)
     /\ \A c \in Cases : Count(RanCases, c) = (IF c \in Listed(inp) THEN 1 ELSE 0)
     /\ Len(results) = Len(RanCases)
     /\ marks = SelectSeq(RanCases, LAMBDA c : Executes(inp.vd[c]))
\* the suites are processed sub-suites first, each exactly once, and begin/end wrap exactly its own cases
SubSuitesFirst ==
  (Done /\ Valid) =>
     /\ order = DOrder(inp, Root)
     /\ Range(order) = Reach(inp) /\ Len(order) = Cardinality(Reach(inp))
     /\ \A s \in Reach(inp) : Count(log, <<"B", s>>) = 1 /\ Count(log, <<"E", s>>) = 1
     /\ \A s \in Reach(inp) :
          /\ \A t \in RefSet(inp, s) : Pos(<<"E", t>>) < Pos(<<"B", s>>)
          /\ LET b == Pos(<<"B", s>>)
                 e == Pos(<<"E", s>>) IN
             /\ e - b - 1 = Len(DCasesOf(inp, s))
             /\ \A j \in 1..(e - b - 1) : log[b + j][1] = "C" /\ log[b + j][2] = DCasesOf(inp, s)[j]
\* progress reporter: OK/0 exactly when every case ended PASS, SKIPPED or XFAIL, else ERROR/4
ProgressVerdict ==
  (Done /\ Valid /\ rep = "progress") =>
     /\ (exit = 0) <=> (\A c \in Range(RanCases) : Ident(inp.vd[c]) \in {"PASS", "SKIPPED", "XFAIL"})
     /\ exit \in {0, 4}
     /\ final = (IF exit = 0 THEN "OK" ELSE "ERROR")
     /\ \A j \in DOMAIN CaseEvents : CaseEvents[j][3] = Ident(inp.vd[CaseEvents[j][2]])
\* JUnit reporter: the same cases; tests = their number; failures + errors = the number of cases the progress
\* reporter counts as unsuccessful, each of which (and no other) carries a failure or error element
JUnitCaseSeq(doc) == Flat([j \in DOMAIN doc.suites |-> doc.suites[j].cases])
ReportersAgree ==
  (Done /\ Valid /\ rep = "junit") =>
     LET jc == JUnitCaseSeq(junit) IN
     /\ exit = 0
     /\ [j \in DOMAIN jc |-> jc[j].c] = RanCases
     /\ SumSeq([j \in DOMAIN junit.suites |-> junit.suites[j].tests]) = Len(RanCases)
     /\ \A j \in DOMAIN junit.suites : junit.suites[j].tests = Len(junit.suites[j].cases)
     /\ SumSeq([j \in DOMAIN junit.suites |-> junit.suites[j].bad]) = Cardinality(Unsuccessful(results))
     /\ \A j \in DOMAIN junit.suites :
          junit.suites[j].bad = Cardinality({q \in DOMAIN junit.suites[j].cases : junit.suites[j].cases[q].child = "bad"})
     /\ \A j \in DOMAIN jc : (jc[j].child = "bad") <=> ~Successful(inp.vd[jc[j].c])
     /\ (junit.root = "testsuites") <=> (RefSeq(inp, Root) # <<>>)
\* action properties: what has been reported as run stays so; the visited set only grows
LogGrows == [][Len(log') >= Len(log) /\ SubSeq(log', 1, Len(log)) = log]_vars
VisitedGrows == [][visited \subseteq visited']_vars
=============================================================================
