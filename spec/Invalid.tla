------------------------------ MODULE Invalid ------------------------------
(***************************************************************************)
(* C03: a test case with one defective instruction anywhere has no effect. *)
(*                                                                         *)
(* A refinement of PhaseExec: the shape of the case is a base case with    *)
(* Base effectful instructions in every phase plus ONE defective           *)
(* instruction of a given class at (phase, position); the fault script is  *)
(* determined by the class: where the defect is detected (reading the      *)
(* document, act parse, symbol validation, pre-sandbox validation) and     *)
(* with which verdict.  Front ends: run (normal / --keep / --act) and the  *)
(* `symbol` command, which stops after symbol validation.                  *)
(***************************************************************************)
EXTENDS PhaseExec

CONSTANT Base    \* number of effectful instructions per phase in the base case

InstrPhases == {"setup", "ba", "assert", "cleanup"}

\* defect classes the property lists
DocDefects == {"syntax_args", "unknown_instr", "unterminated_quote"}      \* found while reading the document
SymDefects == {"undef_symbol", "defined_later", "wrong_type", "illegal_rel_via_symbol"}
PreDefects == {"missing_home_file", "bad_integer", "bad_regex"}
ActDefects == {"act_syntax", "act_undef_symbol", "act_missing_program"}
DefectClasses == DocDefects \cup SymDefects \cup PreDefects \cup ActDefects

DetectStep(c) == CASE c \in DocDefects -> "doc"
                   [] c \in SymDefects \cup {"act_undef_symbol"} -> "sym"
                   [] c \in PreDefects \cup {"act_missing_program"} -> "pre"
                   [] c = "act_syntax" -> "parse"
DefectOutcome(c) == IF c = "act_syntax" THEN "syntax" ELSE "ve"
DefectVerdict(c) == IF c \in DocDefects \cup {"act_syntax"} THEN "SYNTAX_ERROR" ELSE "VALIDATION_ERROR"

Actors == {"command-line", "file", "source"}
\* which act-phase defects exist for which actor (the source actor takes any text; it has no program file)
ActDefectPossible(a, c) == c \notin ActDefects \/ a \in {"command-line", "file"} \/ c = "act_undef_symbol"

VARIABLES defect, dphase, dpos, frontend, stage, actor
ivars == <<vars, defect, dphase, dpos, frontend, stage, actor>>

IInit ==
  /\ defect \in DefectClasses
  /\ dphase \in (IF defect \in ActDefects THEN {"act"} ELSE InstrPhases)
  /\ frontend \in {"run", "symbol"}
  /\ actor \in Actors /\ ActDefectPossible(actor, defect)
  /\ stage = "doc"
  /\ n = [p \in Phases |-> IF p = "conf" THEN 0 ELSE IF p = dphase THEN Base + 1 ELSE Base]
  /\ dpos \in (IF dphase = "act" THEN {1} ELSE 1..Base+1)
  /\ tcStatus = "PASS"
  /\ mode \in (IF frontend = "symbol" THEN {"normal"} ELSE Modes)
  /\ k = 1 /\ i = 1 /\ sds = "none" /\ cwd = "orig" /\ prev = "-" /\ fail = <<>> /\ cfail = <<>>
  /\ inCleanup = FALSE /\ ci = 1 /\ cleanupEntered = 0 /\ mains = 0
  /\ log = <<>> /\ done = FALSE /\ result = <<>>

\* reading the document: syntax errors of instructions are found here, before anything is executed
ReadDocument ==
  /\ stage = "doc"
  /\ IF DetectStep(defect) = "doc"
     THEN /\ fail' = <<"doc", dphase, "SYNTAX_ERROR">> /\ done' = TRUE /\ stage' = "end"
          /\ UNCHANGED <<n, tcStatus, mode, k, i, sds, cwd, prev, cfail, inCleanup, ci, cleanupEntered, mains, log, result>>
     ELSE stage' = "exec" /\ UNCHANGED vars
  /\ UNCHANGED <<defect, dphase, dpos, frontend, actor>>

\* the outcome the current step has in this case
Scripted == IF /\ k <= NF /\ Forward[k][1] = DetectStep(defect) /\ Forward[k][2] = dphase /\ i = dpos
            THEN DefectOutcome(defect) ELSE "ok"

\* `exactly symbol`: parse and validate symbols, then report; nothing else
SymbolFrontEndStops == frontend = "symbol" /\ k > 7

Exec ==
  /\ stage = "exec" /\ ~SymbolFrontEndStops
  /\ \/ SkipStep \/ CreateSandbox \/ ForwardDone \/ CleanupDone \/ Report
     \/ ForwardStep(Scripted) \/ CleanupStep("ok")
  /\ UNCHANGED <<defect, dphase, dpos, frontend, stage, actor>>

SymbolReport ==
  /\ stage = "exec" /\ SymbolFrontEndStops /\ ~done
  /\ done' = TRUE /\ stage' = "end"
  /\ UNCHANGED <<n, tcStatus, mode, k, i, sds, cwd, prev, fail, cfail, inCleanup, ci, cleanupEntered, mains, log, result,
                 defect, dphase, dpos, frontend, actor>>

INext == ReadDocument \/ Exec \/ SymbolReport
ISpec == IInit /\ [][INext]_ivars

\* ---- properties -------------------------------------------------------------------------
Detected == fail # <<>>
\* the case is reported with the class's verdict, by the step that is meant to find it ...
DetectedAsPredicted ==
  (done /\ Detected) => /\ fail[3] = DefectVerdict(defect)
                        /\ fail[1] = DetectStep(defect) /\ fail[2] = dphase
\* ... a run front end always detects it; the symbol front end detects what it looks at
AlwaysDetected ==
  done => (Detected <=> (frontend = "run" \/ DetectStep(defect) \in {"doc", "parse", "sym"}))
\* ... and nothing was executed: no main step, no action to check, no sandbox
NoEffect == (mains = 0 /\ sds = "none" /\ cleanupEntered = 0)
InvalidHasNoEffect == done => NoEffect
SymbolCommandExecutesNothing == frontend = "symbol" => NoEffect
\* validation of ALL phases precedes: the defect is found wherever it is, even in the last line of [cleanup]
FoundEvenIfLast == (done /\ frontend = "run") => Detected
=============================================================================
