-------------------------------- MODULE Text --------------------------------
(***************************************************************************)
(* C05: what the text-transformers and text-matchers mean (reference       *)
(* manual: TEXT-TRANSFORMER, TEXT-MATCHER, LINE-MATCHER, REGEX; Python's   *)
(* `re` for the regex family: leftmost match, greedy quantifiers with      *)
(* backtracking, "$" also before a final new-line, "." not matching NL).   *)
(*                                                                         *)
(* Characters are small integers: 0 NL, 1 a, 2 b, 3 blank, 4 A, 5 B.       *)
(* A text is a sequence of characters.  A line is everything up to and     *)
(* including a new-line; the last line may lack one.                       *)
(*                                                                         *)
(* The machine builds EVERY text up to a length bound, one character per   *)
(* step; the families of transformers and matchers below are applied to    *)
(* every text (exported by TextExport for replay against the real          *)
(* program), and algebraic laws are invariants.                            *)
(***************************************************************************)
EXTENDS Naturals, Sequences, FiniteSets, TLC

CONSTANTS Chars,      \* the characters texts are built from (subset of 0..5)
          MaxLen,     \* bound on the length of a text
          Size        \* "small" / "large": size of the operation families

NL == 0  CA == 1  CB == 2  SP == 3  UA == 4  UB == 5
AllChars == 0..5
Space == {NL, SP}

-----------------------------------------------------------------------------
(* texts and lines                                                          *)
RECURSIVE LinesFrom(_, _, _)
\* split AFTER every new-line; a non-empty rest is the last line
LinesFrom(t, i, cur) ==
  IF i > Len(t) THEN (IF cur = <<>> THEN <<>> ELSE <<cur>>)
  ELSE IF t[i] = NL THEN <<Append(cur, NL)>> \o LinesFrom(t, i + 1, <<>>)
  ELSE LinesFrom(t, i + 1, Append(cur, t[i]))
Lines(t) == LinesFrom(t, 1, <<>>)
EndsNL(l) == l # <<>> /\ l[Len(l)] = NL
Content(l) == IF EndsNL(l) THEN SubSeq(l, 1, Len(l) - 1) ELSE l
RECURSIVE Concat(_)
Concat(ls) == IF ls = <<>> THEN <<>> ELSE Head(ls) \o Concat(Tail(ls))
NumLines(t) == Len(Lines(t))

RECURSIVE DropWhileL(_, _), DropWhileR(_, _)
DropWhileL(t, set) == IF t # <<>> /\ Head(t) \in set THEN DropWhileL(Tail(t), set) ELSE t
DropWhileR(t, set) == IF t # <<>> /\ t[Len(t)] \in set THEN DropWhileR(SubSeq(t, 1, Len(t) - 1), set) ELSE t
Strip(t) == DropWhileR(DropWhileL(t, Space), Space)
StripTrailingSpace(t) == DropWhileR(t, Space)
StripTrailingNewLines(t) == DropWhileR(t, {NL})
UpC(c) == IF c = CA THEN UA ELSE IF c = CB THEN UB ELSE c
LoC(c) == IF c = UA THEN CA ELSE IF c = UB THEN CB ELSE c
ToUpper(t) == [j \in 1..Len(t) |-> UpC(t[j])]
ToLower(t) == [j \in 1..Len(t) |-> LoC(t[j])]

-----------------------------------------------------------------------------
(* regular expressions: [caret, dollar, icase, atoms]; atom = <<set name, quantifier>>          *)
SetOf(name) == CASE name = "a" -> {CA} [] name = "b" -> {CB} [] name = "ab" -> {CA, CB}
                 [] name = "dot" -> AllChars \ {NL} [] name = "sp" -> {SP} [] name = "nl" -> {NL}
                 [] name = "A" -> {UA}
CaseClosure(s) == s \cup {UpC(c) : c \in s} \cup {LoC(c) : c \in s}
AtomSet(re, k) == IF re.icase THEN CaseClosure(SetOf(re.atoms[k][1])) ELSE SetOf(re.atoms[k][1])

FAILV == 99
Lazy == {"??", "*?", "+?"}
RECURSIVE Run(_, _, _)
Run(t, i, set) == IF i <= Len(t) /\ t[i] \in set THEN 1 + Run(t, i + 1, set) ELSE 0
EndOk(t, i, dollar, full) ==
  IF full THEN i = Len(t) + 1
  ELSE ~dollar \/ i = Len(t) + 1 \/ (i = Len(t) /\ t[i] = NL)
RECURSIVE MB(_, _, _, _, _, _), Try(_, _, _, _, _, _, _, _), TryUp(_, _, _, _, _, _, _, _)
\* Python's backtracking matcher: the end position of the match of atoms k.. at position i, or FAILV.
\* ban: an end position that is not accepted (0: none) - after an EMPTY match, re.sub accepts no second empty match
\* at the same position; the matcher then BACKTRACKS into longer alternatives (sre: must_advance).
MB(re, k, t, i, full, ban) ==
  IF k > Len(re.atoms) THEN (IF EndOk(t, i, re.dollar, full) /\ i # ban THEN i ELSE FAILV)
  ELSE LET q == re.atoms[k][2]
           r == Run(t, i, AtomSet(re, k))
           lo == IF q \in {"1", "+", "+?"} THEN 1 ELSE 0
           hi == IF q \in {"1", "?", "??"} THEN (IF r >= 1 THEN 1 ELSE 0) ELSE r
       IN IF hi < lo THEN FAILV
          ELSE IF q \in Lazy THEN TryUp(re, k, t, i, full, lo, hi, ban) ELSE Try(re, k, t, i, full, hi, lo, ban)
Try(re, k, t, i, full, n, lo, ban) ==          \* greedy: n = hi, hi-1, ..., lo
  LET e == MB(re, k + 1, t, i + n, full, ban)
  IN IF e # FAILV THEN e ELSE IF n = lo THEN FAILV ELSE Try(re, k, t, i, full, n - 1, lo, ban)
TryUp(re, k, t, i, full, n, hi, ban) ==        \* lazy (??, *?, +?): n = lo, lo+1, ..., hi
  LET e == MB(re, k + 1, t, i + n, full, ban)
  IN IF e # FAILV THEN e ELSE IF n = hi THEN FAILV ELSE TryUp(re, k, t, i, full, n + 1, hi, ban)
M(re, k, t, i, full) == MB(re, k, t, i, full, 0)
RECURSIVE Search(_, _, _)
\* leftmost match starting at s or later: <<start, end>> or <<>>
Search(re, t, s) ==
  IF s > Len(t) + 1 THEN <<>>
  ELSE LET e == IF re.caret /\ s # 1 THEN FAILV ELSE M(re, 1, t, s, FALSE)
       IN IF e # FAILV THEN <<s, e>> ELSE Search(re, t, s + 1)
Matches(re, t) == Search(re, t, 1) # <<>>
\* "$" in a full match may still stop before a final new-line only if nothing is left: it cannot
FullMatch(re, t) == M(re, 1, t, 1, TRUE) # FAILV
Nullable(re) == \A k \in 1..Len(re.atoms) : re.atoms[k][2] \in {"?", "*", "??", "*?"}
RECURSIVE SearchB(_, _, _, _), SubB(_, _, _, _, _)
\* leftmost match starting at s or later, an empty match AT ban excluded
SearchB(re, t, s, ban) ==
  IF s > Len(t) + 1 THEN <<>>
  ELSE LET e == IF re.caret /\ s # 1 THEN FAILV ELSE MB(re, 1, t, s, FALSE, IF s = ban THEN ban ELSE 0)
       IN IF e # FAILV THEN <<s, e>> ELSE SearchB(re, t, s + 1, ban)
\* re.sub (Python >= 3.7): left-to-right non-overlapping substitution; an empty match is replaced too, also when
\* it is adjacent to the preceding non-empty match; directly after an empty match the next match at the same
\* position must be non-empty (adv)
SubB(re, t, s, repl, adv) ==
  LET m == SearchB(re, t, s, IF adv THEN s ELSE 0)
  IN IF m = <<>> THEN SubSeq(t, s, Len(t))
     ELSE SubSeq(t, s, m[1] - 1) \o repl \o SubB(re, t, m[2], repl, m[1] = m[2])
Sub(re, t, s, repl) == SubB(re, t, s, repl, FALSE)

-----------------------------------------------------------------------------
(* line matchers, text transformers, text matchers                          *)
Cmp(op, n, k) == CASE op = "==" -> n = k [] op = "!=" -> n # k [] op = "<" -> n < k
                   [] op = "<=" -> n <= k [] op = ">" -> n > k [] op = ">=" -> n >= k
RECURSIVE LmHolds(_, _, _)
\* a line matcher is applied to (line number, contents of the line without its new-line)
LmHolds(lm, n, c) ==
  CASE lm[1] = "lnum" -> Cmp(lm[2], n, lm[3])
    [] lm[1] = "cmatch" -> IF lm[2] THEN FullMatch(lm[3], c) ELSE Matches(lm[3], c)
    [] lm[1] = "cempty" -> c = <<>>
    \* the contents of a line as a text of its own: one line unless it is empty (it has no new-line)
    [] lm[1] = "cnum" -> Cmp(lm[2], IF c = <<>> THEN 0 ELSE 1, lm[3])
    [] lm[1] = "lconst" -> lm[2]
    [] lm[1] = "lnot" -> ~LmHolds(lm[2], n, c)
    [] lm[1] = "land" -> LmHolds(lm[2], n, c) /\ LmHolds(lm[3], n, c)
    [] lm[1] = "lor" -> LmHolds(lm[2], n, c) \/ LmHolds(lm[3], n, c)

RECURSIVE Apply(_, _)
FilterLines(lm, t) == LET ls == Lines(t) IN
  Concat([j \in 1..Len(ls) |-> IF LmHolds(lm, j, Content(ls[j])) THEN ls[j] ELSE <<>>])
\* replace: line by line; the regex sees the line's new-line unless -preserve-new-lines; -at limits the lines
ReplaceLines(pres, at, re, repl, t) == LET ls == Lines(t) IN
  Concat([j \in 1..Len(ls) |->
     LET l == ls[j] IN
     IF at # <<>> /\ ~LmHolds(at, j, Content(l)) THEN l
     ELSE IF pres /\ EndsNL(l) THEN Sub(re, Content(l), 1, repl) \o <<NL>>
     ELSE Sub(re, l, 1, repl)])
Apply(tr, t) ==
  CASE tr[1] = "id" -> t
    [] tr[1] = "upper" -> ToUpper(t)
    [] tr[1] = "lower" -> ToLower(t)
    [] tr[1] = "strip" -> Strip(t)
    [] tr[1] = "stripts" -> StripTrailingSpace(t)
    [] tr[1] = "stripnl" -> StripTrailingNewLines(t)
    [] tr[1] = "filter" -> FilterLines(tr[2], t)
    [] tr[1] = "grep" -> FilterLines(<<"cmatch", tr[2], tr[3]>>, t)
    [] tr[1] = "replace" -> ReplaceLines(tr[2], tr[3], tr[4], tr[5], t)
    [] tr[1] = "seq" -> Apply(tr[3], Apply(tr[2], t))           \* T1 | T2: left to right

RECURSIVE Holds(_, _)
Holds(m, t) ==
  CASE m[1] = "empty" -> t = <<>>
    [] m[1] = "equals" -> t = m[2]
    [] m[1] = "matches" -> IF m[2] THEN FullMatch(m[3], t) ELSE Matches(m[3], t)
    [] m[1] = "numlines" -> Cmp(m[2], NumLines(t), m[3])
    [] m[1] = "every" -> LET ls == Lines(t) IN \A j \in 1..Len(ls) : LmHolds(m[2], j, Content(ls[j]))
    [] m[1] = "any" -> LET ls == Lines(t) IN \E j \in 1..Len(ls) : LmHolds(m[2], j, Content(ls[j]))
    [] m[1] = "on" -> Holds(m[3], Apply(m[2], t))               \* -transformed-by T M
    [] m[1] = "const" -> m[2]
    [] m[1] = "not" -> ~Holds(m[2], t)
    [] m[1] = "and" -> Holds(m[2], t) /\ Holds(m[3], t)
    [] m[1] = "or" -> Holds(m[2], t) \/ Holds(m[3], t)

-----------------------------------------------------------------------------
(* the operation families (sequences, so that results can refer to them by index) *)
Re(caret, atoms, dollar) == [caret |-> caret, dollar |-> dollar, icase |-> FALSE, atoms |-> atoms]
ReI(atoms) == [caret |-> FALSE, dollar |-> FALSE, icase |-> TRUE, atoms |-> atoms]
Quants == <<"1", "?", "*", "+">>
SetNames == IF Size = "small" THEN <<"a", "dot", "nl">> ELSE <<"a", "ab", "dot", "sp", "nl">>
OneAtom == [j \in 1..(Len(SetNames) * 4) |-> <<<<SetNames[((j - 1) \div 4) + 1], Quants[((j - 1) % 4) + 1]>>>>]
TwoAtoms == << <<<<"a", "1">>, <<"b", "1">>>>, <<<<"a", "+">>, <<"b", "1">>>>, <<<<"dot", "*">>, <<"b", "1">>>>,
               <<<<"a", "1">>, <<"dot", "*">>>>, <<<<"a", "*">>, <<"a", "1">>>>, <<<<"ab", "+">>, <<"a", "1">>>>,
               <<<<"a", "?">>, <<"b", "?">>>>, <<<<"dot", "+">>, <<"nl", "1">>>>, <<<<"a", "1">>, <<"nl", "?">>>>,
               <<<<"sp", "*">>, <<"a", "+">>>>, <<<<"dot", "?">>, <<"dot", "1">>>>, <<<<"ab", "*">>, <<"b", "+">>>> >>
AtomSeqs == OneAtom \o (IF Size = "small" THEN SubSeq(TwoAtoms, 1, 5) ELSE TwoAtoms)
Anchors == IF Size = "small" THEN << <<FALSE, FALSE>>, <<TRUE, TRUE>>, <<FALSE, TRUE>> >>
           ELSE << <<FALSE, FALSE>>, <<TRUE, FALSE>>, <<FALSE, TRUE>>, <<TRUE, TRUE>> >>
Regexes == [j \in 1..(Len(AtomSeqs) * Len(Anchors)) |->
              LET as == AtomSeqs[((j - 1) \div Len(Anchors)) + 1]  an == Anchors[((j - 1) % Len(Anchors)) + 1]
              IN Re(an[1], as, an[2])]
           \o << ReI(<<<<"a", "+">>>>), ReI(<<<<"A", "1">>, <<"b", "1">>>>) >>
           \* lazy quantifiers: the FIRST match found is the shortest, a FULL match must still be found by backtracking
           \o << Re(FALSE, <<<<"a", "+?">>>>, FALSE), Re(FALSE, <<<<"a", "+?">>, <<"b", "?">>>>, FALSE),
                 Re(FALSE, <<<<"dot", "*?">>, <<"b", "1">>>>, FALSE), Re(FALSE, <<<<"a", "??">>, <<"dot", "1">>>>, FALSE) >>
NonNullable == SelectSeq(Regexes, LAMBDA r : ~Nullable(r))

LineMatchers == << <<"lnum", "==", 1>>, <<"lnum", ">=", 2>>, <<"lnum", "!=", 2>>, <<"lnum", "<", 1>>,
                   <<"cmatch", FALSE, Re(FALSE, <<<<"a", "1">>>>, FALSE)>>,
                   <<"cmatch", TRUE, Re(FALSE, <<<<"a", "+">>>>, FALSE)>>,
                   <<"cmatch", FALSE, Re(TRUE, <<<<"b", "1">>>>, TRUE)>>,
                   <<"cempty">>, <<"lconst", TRUE>>, <<"lconst", FALSE>>, <<"cnum", "==", 1>>,
                   <<"lnot", <<"cempty">>>>,
                   <<"land", <<"lnum", ">=", 2>>, <<"cmatch", FALSE, Re(FALSE, <<<<"a", "1">>>>, FALSE)>>>>,
                   <<"lor", <<"lnum", "==", 1>>, <<"cempty">>>> >>

Repls == << <<>>, <<CB>>, <<NL>>, <<CB, SP>> >>
Basic == << <<"id">>, <<"upper">>, <<"lower">>, <<"strip">>, <<"stripts">>, <<"stripnl">> >>
Filters == [j \in 1..Len(LineMatchers) |-> <<"filter", LineMatchers[j]>>]
Greps == [j \in 1..(2 * Len(Regexes)) |-> <<"grep", j > Len(Regexes), Regexes[((j - 1) % Len(Regexes)) + 1]>>]
Replaces == [j \in 1..(Len(NonNullable) * Len(Repls) * 2) |->
               LET r == NonNullable[((j - 1) \div (Len(Repls) * 2)) + 1]
                   p == Repls[(((j - 1) \div 2) % Len(Repls)) + 1]
               IN <<"replace", j % 2 = 0, <<>>, r, p>>]
\* regexes that match the empty string: empty matches are replaced as well (an empty line is one whole match)
NullableRes == SelectSeq(Regexes, LAMBDA r : Nullable(r))
NullRepls == << <<CB>>, <<NL>> >>
ReplacesNullable == [j \in 1..(Len(NullableRes) * Len(NullRepls) * 2) |->
               LET r == NullableRes[((j - 1) \div (Len(NullRepls) * 2)) + 1]
                   p == NullRepls[(((j - 1) \div 2) % Len(NullRepls)) + 1]
               IN <<"replace", j % 2 = 0, <<>>, r, p>>]
ReplacesAt == << <<"replace", FALSE, <<"lnum", "==", 2>>, Re(FALSE, <<<<"a", "1">>>>, FALSE), <<CB>>>>,
                 <<"replace", TRUE, <<"lnum", "!=", 1>>, Re(FALSE, <<<<"dot", "1">>>>, TRUE), <<>>>>,
                 <<"replace", FALSE, <<"cmatch", FALSE, Re(FALSE, <<<<"b", "1">>>>, FALSE)>>, Re(FALSE, <<<<"nl", "1">>>>, FALSE), <<SP>>>>,
                 <<"replace", FALSE, <<"lnot", <<"lnum", ">=", 2>>>>, Re(FALSE, <<<<"a", "+">>>>, FALSE), <<NL>>>>,
                 \* -at and -preserve-new-lines together, with a regex that could match the new-line of a line
                 <<"replace", TRUE, <<"lnum", "!=", 1>>, Re(FALSE, <<<<"nl", "1">>>>, FALSE), <<SP>>>>,
                 <<"replace", TRUE, <<"cmatch", FALSE, Re(FALSE, <<<<"a", "1">>>>, FALSE)>>, Re(FALSE, <<<<"a", "1">>, <<"nl", "?">>>>, FALSE), <<CB>>>>,
                 <<"replace", TRUE, <<"lnum", ">=", 1>>, Re(FALSE, <<<<"sp", "*">>, <<"nl", "1">>>>, FALSE), <<CB>>>> >>
Seqs == << <<"seq", <<"replace", FALSE, <<>>, Re(FALSE, <<<<"a", "1">>>>, FALSE), <<CB>>>>, <<"strip">>>>,
           <<"seq", <<"strip">>, <<"upper">>>>,
           <<"seq", <<"filter", <<"lnum", ">=", 2>>>>, <<"filter", <<"lnum", "==", 1>>>>>>,
           <<"seq", <<"replace", FALSE, <<>>, Re(FALSE, <<<<"nl", "1">>>>, FALSE), <<>>>>, <<"filter", <<"lnum", "==", 1>>>>>>,
           <<"seq", <<"seq", <<"stripnl">>, <<"replace", FALSE, <<>>, Re(FALSE, <<<<"sp", "1">>>>, FALSE), <<NL>>>>>>,
                    <<"filter", <<"lnum", ">=", 2>>>>>>,
           <<"seq", <<"id">>, <<"seq", <<"grep", FALSE, Re(FALSE, <<<<"a", "1">>>>, FALSE)>>, <<"id">>>>>>,
           \* A | B is B applied to the OUTPUT of A: the line numbers the second filter sees are those of that output
           <<"seq", <<"filter", <<"cmatch", FALSE, Re(FALSE, <<<<"a", "1">>>>, FALSE)>>>>, <<"filter", <<"lnot", <<"lnum", "==", 2>>>>>>>>,
           <<"seq", <<"filter", <<"lnot", <<"cempty">>>>>>, <<"filter", <<"lnum", "!=", 1>>>>>>,
           <<"seq", <<"grep", FALSE, Re(FALSE, <<<<"b", "1">>>>, FALSE)>>,
                    <<"filter", <<"lor", <<"lnum", "==", 1>>, <<"lnum", ">=", 3>>>>>>>>,
           <<"seq", <<"filter", <<"lnum", ">=", 2>>>>, <<"seq", <<"filter", <<"lnum", ">=", 2>>>>, <<"filter", <<"lnum", "!=", 2>>>>>>>> >>
Transformers == Basic \o Filters \o Greps \o Replaces \o ReplacesNullable \o ReplacesAt \o Seqs

EqualsTexts == << <<>>, <<NL>>, <<CA>>, <<CA, NL>>, <<CA, NL, CB>>, <<SP>>, <<CA, SP>>, <<NL, NL>> >>
IntCmps == << <<"==", 0>>, <<"==", 1>>, <<"==", 2>>, <<">=", 2>>, <<"<", 1>>, <<"!=", 3>> >>
Matchers ==
  << <<"empty">>, <<"const", TRUE>> >>
  \o [j \in 1..Len(EqualsTexts) |-> <<"equals", EqualsTexts[j]>>]
  \o [j \in 1..(2 * Len(Regexes)) |-> <<"matches", j > Len(Regexes), Regexes[((j - 1) % Len(Regexes)) + 1]>>]
  \o [j \in 1..Len(IntCmps) |-> <<"numlines", IntCmps[j][1], IntCmps[j][2]>>]
  \o [j \in 1..Len(LineMatchers) |-> <<"every", LineMatchers[j]>>]
  \o [j \in 1..Len(LineMatchers) |-> <<"any", LineMatchers[j]>>]
  \o << <<"on", <<"strip">>, <<"empty">>>>,
        <<"on", <<"filter", <<"lnum", ">=", 2>>>>, <<"numlines", "==", 1>>>>,
        <<"on", <<"replace", FALSE, <<>>, Re(FALSE, <<<<"nl", "1">>>>, FALSE), <<>>>>, <<"numlines", "==", 1>>>>,
        <<"on", <<"upper">>, <<"matches", FALSE, Re(FALSE, <<<<"A", "1">>>>, FALSE)>>>>,
        <<"not", <<"empty">>>>,
        <<"and", <<"not", <<"empty">>>>, <<"or", <<"numlines", "==", 1>>, <<"matches", FALSE, Re(FALSE, <<<<"b", "1">>>>, FALSE)>>>>>>,
        <<"or", <<"empty">>, <<"every", <<"cempty">>>>>>,
        <<"on", <<"seq", <<"strip">>, <<"stripnl">>>>, <<"equals", <<CA>>>>>> >>
  \* a text held in memory (the output of a transformer, kept for two matchers) counted by each of them
  \o << <<"on", <<"grep", FALSE, Re(FALSE, <<<<"dot", "1">>>>, FALSE)>>, <<"and", <<"numlines", "==", 2>>, <<"numlines", ">=", 2>>>>>>,
        <<"on", <<"filter", <<"lconst", TRUE>>>>, <<"or", <<"numlines", "==", 1>>, <<"numlines", "==", 2>>>>>> >>
  \* the output of every transformer of the strip family read LINE BY LINE (an output that is empty has no line)
  \o [j \in 1..9 |->
        LET tr == <<<<"strip">>, <<"stripts">>, <<"stripnl">>>>[((j - 1) \div 3) + 1]
            m  == << <<"numlines", "==", 0>>, <<"numlines", "==", 1>>, <<"any", <<"lconst", TRUE>>>> >>[((j - 1) % 3) + 1]
        IN <<"on", tr, m>>]

-----------------------------------------------------------------------------
VARIABLE t
Init == t = <<>>
Read(c) == Len(t) < MaxLen /\ c \in Chars /\ t' = Append(t, c)
Next == \E c \in Chars : Read(c)
Spec == Init /\ [][Next]_t

\* laws
LinesPartition == Concat(Lines(t)) = t
LinesEndNL == LET ls == Lines(t) IN \A j \in 1..Len(ls) : (j < Len(ls) => EndsNL(ls[j])) /\ ls[j] # <<>>
              /\ \A x \in 1..Len(ls[j]) - 1 : ls[j][x] # NL
StripIdempotent == Strip(Strip(t)) = Strip(t) /\ StripTrailingNewLines(StripTrailingNewLines(t)) = StripTrailingNewLines(t)
FilterTrueIsIdentity == FilterLines(<<"lconst", TRUE>>, t) = t /\ FilterLines(<<"lconst", FALSE>>, t) = <<>>
EveryAnyDuality == \A j \in 1..Len(LineMatchers) :
   Holds(<<"every", LineMatchers[j]>>, t) = ~Holds(<<"any", <<"lnot", LineMatchers[j]>>>>, t)
GrepIsFilter == \A j \in 1..Len(Greps) :
   Apply(Greps[j], t) = Apply(<<"filter", <<"cmatch", Greps[j][2], Greps[j][3]>>>>, t)
FullImpliesSearch == \A j \in 1..Len(Regexes) : FullMatch(Regexes[j], t) => Matches(Regexes[j], t)
NumLinesIsLenLines == Holds(<<"numlines", "==", NumLines(t)>>, t)
=============================================================================
