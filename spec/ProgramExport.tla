--------------------------- MODULE ProgramExport ---------------------------
(* Export of every case of Program with what the specification predicts, for replay against the real program: *)
(* the family, the levels (with the tokens of their argument lists), the list of instructions, and            *)
(* the process that must have been started (shell flag, command-line shape, argv, stdin, cwd), the outcome,   *)
(* and what the context sees of the process (exit code, stdout, stderr after the transformations).            *)
EXTENDS Program, Json
LevelRec(lv, k) == [a |-> lv.a, s |-> lv.s, t |-> lv.t, k |-> k,
                    toks |-> IF lv.a = "-" THEN <<>> ELSE Tokens(lv.a)]
NoProc == [shell |-> FALSE, cmd |-> "-", argv |-> <<>>, stdin |-> <<>>, cwd |-> <<>>]
Export ==
  Done => PrintT(<<"CASE", ToJson(
     [fam |-> fam,
      lv0 |-> LevelRec(lv0, 0),
      lvs |-> [k \in 1..Len(lvs) |-> LevelRec(lvs[k], k)],
      layout |-> Layout,
      started |-> Len(procs),
      proc |-> IF Started THEN Proc ELSE NoProc,
      outcome |-> outcome,
      ran |-> raw # NoOut,
      seen |-> seen,
      stream |-> Stream(ctx),
      d12 |-> D12])>>)
=============================================================================
