------------------------------ MODULE LoopTree ------------------------------
(***************************************************************************)
(* C15, a tree with a symbolic link that leads BACK to a directory on the  *)
(* path from the root:      D/a (regular file)   D/s/ (directory)          *)
(*                          D/s/up -> ..  (symbolic link to D itself)      *)
(* Symbolic links are followed, so `dir-contents D : -recursive` has no    *)
(* finite model; with -max-depth M it has: the unfolding of the tree down  *)
(* to depth M (depth 0 = the entries of D itself).  DirTree.tla holds a    *)
(* tree as a finite map of paths and cannot hold this one; this module is  *)
(* the breadth-first generator for it, as a step machine: a queue of       *)
(* (node kind, depth) whose head is expanded in every step.                *)
(* Node kinds: "a" regular file, "s" directory, "u" link to D.             *)
(* Exported (constant level): for every 0 <= N <= M <= MaxDepth the number *)
(* of entries, of regular files, of directories (links followed) and of    *)
(* symbolic links with depth in N..M.                                      *)
(***************************************************************************)
EXTENDS Naturals, Sequences, TLC, Json

CONSTANT MaxDepth

Children(k) == CASE k = "root" -> <<"a", "s">> [] k = "s" -> <<"u">> [] k = "u" -> <<"a", "s">> [] OTHER -> <<>>
IsDirLike(k) == k \in {"s", "u"}

VARIABLES queue,    \* the generator's queue: <<kind, depth>>
          listed    \* what has been listed so far: <<kind, depth>>
Init == queue = [j \in 1..2 |-> <<Children("root")[j], 0>>] /\ listed = <<>>
\* the head of the queue is listed; if it is a directory (links followed) above the limit its entries are queued
Visit == /\ queue # <<>>
         /\ LET h == Head(queue) IN
            /\ listed' = Append(listed, h)
            /\ queue' = Tail(queue) \o (IF IsDirLike(h[1]) /\ h[2] < MaxDepth
                                        THEN [j \in 1..Len(Children(h[1])) |-> <<Children(h[1])[j], h[2] + 1>>] ELSE <<>>)
Next == Visit
Spec == Init /\ [][Next]_<<queue, listed>>

Done == queue = <<>>
\* breadth first: depths never decrease along the listing; the generator terminates within the limit
BreadthFirst == \A i \in 1..(Len(listed) - 1) : listed[i][2] <= listed[i + 1][2]
WithinLimit == \A i \in 1..Len(listed) : listed[i][2] <= MaxDepth
\* the unfolding alternates: {a, s} at even depths, {u} at odd depths
Alternates == Done => \A i \in 1..Len(listed) : (listed[i][2] % 2 = 0) <=> (listed[i][1] \in {"a", "s"})

Count(n, m, kinds) == Len(SelectSeq(listed, LAMBDA e : e[2] >= n /\ e[2] <= m /\ e[1] \in kinds))
Export == Done => \A m \in 0..MaxDepth : \A n \in 0..m :
   PrintT(<<"LOOP", ToJson([n |-> n, m |-> m, all |-> Count(n, m, {"a", "s", "u"}), files |-> Count(n, m, {"a"}),
                            dirs |-> Count(n, m, {"s", "u"}), links |-> Count(n, m, {"u"})])>>)
=============================================================================
