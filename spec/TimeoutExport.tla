--------------------------- MODULE TimeoutExport ---------------------------
EXTENDS Timeout, Json
Export == (done /\ result # <<>>) =>
   PrintT(<<"CASE", ToJson([place |-> place, use |-> use, child |-> child, hist |-> hist, env |-> envSet,
                            killed |-> proc = "killed", atStart |-> AtStart(hist), status |-> result[3], phase |-> result[2],
                            cleanupRan |-> \E a \in 1..Len(log) : log[a][1] = "main" /\ log[a][2] = "cleanup" /\ log[a][4] = "ok" /\ log[a][3] = n["cleanup"],
                            sds |-> sds, ticks |-> total])>>)
=============================================================================
