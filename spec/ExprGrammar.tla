---------------------------- MODULE ExprGrammar ----------------------------
(***************************************************************************)
(* C06: the expression grammar shared by the matcher types.                *)
(* Reference manual: "!" binds tighter than "&&", which binds tighter than *)
(* "||"; equal operators fold to one n-ary node in source order;           *)
(* parentheses override; operands of && and || are evaluated lazily from   *)
(* left to right; a malformed expression is a syntax error.                *)
(*                                                                         *)
(* Tokens: "T" "F" (primitives), "!" "&&" "||" "(" ")" and "NL" (a line    *)
(* break).  Line breaks: PERMITTED directly after an infix operator, after *)
(* "!", after "(" and before ")" (the value must not change);              *)
(* UNSPECIFIED directly before an infix operator (the manual is silent:    *)
(* either the joined reading or a syntax error is acceptable);             *)
(* anywhere else a line break ends the instruction, so that what follows   *)
(* is not part of the expression (and, here, is a syntax error).           *)
(* Parse(ts, lenient): lenient = TRUE takes the joined reading of the      *)
(* unspecified breaks, FALSE the other one.                                *)
(*                                                                         *)
(* Two machines enumerate expressions: Read(tok) builds EVERY token string *)
(* up to a bound (well-formed or not); the tree machine builds every tree  *)
(* up to a bound in postfix order, and every tree is rendered in several   *)
(* layouts that must all parse back to it (RoundTrip).                     *)
(***************************************************************************)
EXTENDS Naturals, Sequences, FiniteSets, TLC

CONSTANTS MaxTokens,    \* bound on token strings (machine "strings") / postfix tokens (machine "trees")
          Mode,         \* "strings" or "trees"
          Quant,        \* TRUE: the strings machine also writes the quantifier prefix "Q" (and no line breaks)
          Deviations,   \* {"QuantifierTakesFullExpression"}: the operand of Q is a whole expression (sharpness control)
          QSem          \* what the prefix "Q" stands for:
                        \*  "one"  a quantifier over a collection of ONE element (`every line :` ...): the operand is a
                        \*         matcher of the element type (no Q inside); Q X has the value of X
                        \*  "ctx"  `-transformed-by TRANSFORMER`: the operand - a simple expression of the SAME type, Q
                        \*         allowed inside - is applied to the transformed text, on which every primitive has
                        \*         the opposite value (T: true of the original text only, F: of the transformed only)

(* "Q" is a quantifier of a matcher over a collection - "every line :", "any line :", "every file :", "any file :" -  *)
(* whose operand is a matcher of ANOTHER type (the element type) and is a SIMPLE expression: one primitive, a        *)
(* negation or a parenthesised expression.  So "Q" binds like "!": in `Q a && b` the operand of Q is `a`.  Inside     *)
(* the operand the element type's grammar is read (level 1), where there is no quantifier.  Over a collection of      *)
(* exactly one element both quantifiers denote their operand's value.                                                 *)
Tok == IF Quant THEN {"T", "F", "!", "&&", "||", "(", ")", "Q"} ELSE {"T", "F", "!", "&&", "||", "(", ")", "NL"}
ERR == [op |-> "err"]
IsErr(r) == r.op = "err"
Leaf(v, pos) == [op |-> "leaf", v |-> v, pos |-> pos]
NotE(a) == [op |-> "not", a |-> a]
QuantE(a) == [op |-> "q", a |-> a]
Nary(o, as) == [op |-> o, as |-> as]

-----------------------------------------------------------------------------
(* The grammar as recursive descent over <<tokens, position>>               *)
RECURSIVE SkipNL(_, _)
SkipNL(ts, i) == IF i <= Len(ts) /\ ts[i] = "NL" THEN SkipNL(ts, i + 1) ELSE i
At(ts, i) == IF i <= Len(ts) THEN ts[i] ELSE "EOF"
\* position of an infix operator reached from i: directly, or (lenient reading) after line breaks
OpPos(ts, i, len) == IF len THEN SkipNL(ts, i) ELSE i

\* results: [op |-> "ok", t |-> tree, i |-> next position] or ERR
Ok(t, i) == [op |-> "ok", t |-> t, i |-> i]
RECURSIVE POr(_, _, _, _), PAnd(_, _, _, _), PPrim(_, _, _, _), POrTail(_, _, _, _, _), PAndTail(_, _, _, _, _)
PPrim(ts, i0, len, lv) ==
  LET h == At(ts, i0) IN
  IF h \in {"T", "F"} THEN Ok(Leaf(h, i0), i0 + 1)
  ELSE IF h = "!" THEN LET r == PPrim(ts, SkipNL(ts, i0 + 1), len, lv) IN IF IsErr(r) THEN ERR ELSE Ok(NotE(r.t), r.i)
  ELSE IF h = "Q" THEN IF lv # 0 THEN ERR
                       ELSE LET inner == IF QSem = "ctx" THEN 0 ELSE 1
                                r == IF "QuantifierTakesFullExpression" \in Deviations THEN POr(ts, i0 + 1, len, inner)
                                     ELSE PPrim(ts, i0 + 1, len, inner)
                            IN IF IsErr(r) THEN ERR ELSE Ok(QuantE(r.t), r.i)
  ELSE IF h = "(" THEN LET r == POr(ts, SkipNL(ts, i0 + 1), len, lv) IN
       IF IsErr(r) THEN ERR
       ELSE LET j == SkipNL(ts, r.i) IN IF At(ts, j) = ")" THEN Ok(r.t, j + 1) ELSE ERR
  ELSE ERR
PAndTail(ts, acc, i, len, lv) ==
  LET j == OpPos(ts, i, len) IN
  IF At(ts, j) = "&&"
  THEN LET r == PPrim(ts, SkipNL(ts, j + 1), len, lv) IN IF IsErr(r) THEN ERR ELSE PAndTail(ts, Append(acc, r.t), r.i, len, lv)
  ELSE Ok(IF Len(acc) = 1 THEN acc[1] ELSE Nary("and", acc), i)
PAnd(ts, i, len, lv) == LET r == PPrim(ts, i, len, lv) IN IF IsErr(r) THEN ERR ELSE PAndTail(ts, <<r.t>>, r.i, len, lv)
POrTail(ts, acc, i, len, lv) ==
  LET j == OpPos(ts, i, len) IN
  IF At(ts, j) = "||"
  THEN LET r == PAnd(ts, SkipNL(ts, j + 1), len, lv) IN IF IsErr(r) THEN ERR ELSE POrTail(ts, Append(acc, r.t), r.i, len, lv)
  ELSE Ok(IF Len(acc) = 1 THEN acc[1] ELSE Nary("or", acc), i)
POr(ts, i, len, lv) == LET r == PAnd(ts, i, len, lv) IN IF IsErr(r) THEN ERR ELSE POrTail(ts, <<r.t>>, r.i, len, lv)

\* a complete expression: starts on the instruction's line and is followed by nothing
Parse(ts, len) ==
  IF ts = <<>> \/ ts[1] = "NL" THEN ERR
  ELSE LET r == POr(ts, 1, len, 0) IN IF IsErr(r) THEN ERR ELSE IF r.i # Len(ts) + 1 THEN ERR ELSE r.t

\* the same grammar restricted to a "simple" expression: one primitive / negation / parenthesised expression
ParseSimple(ts, len) ==
  IF ts = <<>> \/ ts[1] = "NL" THEN ERR
  ELSE LET r == PPrim(ts, 1, len, 0) IN IF IsErr(r) THEN ERR ELSE IF r.i # Len(ts) + 1 THEN ERR ELSE r.t

-----------------------------------------------------------------------------
(* Lazy evaluation, left to right: the value and the positions of the primitives actually evaluated *)
RECURSIVE EvalC(_, _), EvalSeq(_, _, _, _)
\* c: inside a transformed context (QSem = "ctx")
EvalC(t, c) == CASE t.op = "leaf" -> [v |-> (t.v = "T") # c, log |-> <<t.pos>>]
                 [] t.op = "not" -> LET r == EvalC(t.a, c) IN [v |-> ~r.v, log |-> r.log]
                 [] t.op = "q" -> EvalC(t.a, c \/ QSem = "ctx")
                 [] t.op = "and" -> EvalSeq(t.as, 1, FALSE, c)
                 [] t.op = "or" -> EvalSeq(t.as, 1, TRUE, c)
Eval(t) == EvalC(t, FALSE)
\* stop at the first operand whose value is `decisive` (FALSE for &&, TRUE for ||)
EvalSeq(as, j, decisive, c) ==
  LET r == EvalC(as[j], c) IN
  IF r.v = decisive \/ j = Len(as) THEN r
  ELSE LET s == EvalSeq(as, j + 1, decisive, c) IN [v |-> s.v, log |-> r.log \o s.log]

Denote(ts, len) == LET p == Parse(ts, len) IN
  IF IsErr(p) THEN [r |-> "ERR", log |-> <<>>] ELSE LET e == Eval(p) IN [r |-> IF e.v THEN "T" ELSE "F", log |-> e.log]

\* trees without positions (for comparing shapes)
RECURSIVE Shape(_), ShapeSeq(_)
Shape(t) == CASE t.op = "leaf" -> <<"leaf", t.v>>
              [] t.op = "not" -> <<"not", Shape(t.a)>>
              [] t.op = "q" -> <<"q", Shape(t.a)>>
              [] t.op \in {"and", "or"} -> <<t.op, ShapeSeq(t.as)>>
              [] t.op = "err" -> <<"err">>
ShapeSeq(as) == IF as = <<>> THEN <<>> ELSE <<Shape(Head(as))>> \o ShapeSeq(Tail(as))

-----------------------------------------------------------------------------
(* Rendering of a tree: minimal parentheses / every operand parenthesised; line breaks at the permitted places *)
Prec(t) == CASE t.op = "or" -> 1 [] t.op = "and" -> 2 [] OTHER -> 3
RECURSIVE Render(_, _, _), RenderOperands(_, _, _, _, _)
\* parens: "min" | "all";  nl: "none" | "afterop" | "inparens"
Wrap(s, nl) == IF nl = "inparens" THEN <<"(", "NL">> \o s \o <<"NL", ")">> ELSE <<"(">> \o s \o <<")">>
Render(t, parens, nl) ==
  CASE t.op = "leaf" -> <<t.v>>
    [] t.op = "not" -> LET s == Render(t.a, parens, nl) IN
                       <<"!">> \o (IF nl = "afterop" THEN <<"NL">> ELSE <<>>)
                       \o (IF t.a.op \in {"and", "or"} THEN Wrap(s, nl) ELSE s)
    [] t.op = "q" -> LET s == Render(t.a, parens, nl) IN
                     <<"Q">> \o (IF t.a.op \in {"and", "or"} THEN Wrap(s, nl) ELSE s)
    [] t.op \in {"and", "or"} -> RenderOperands(t, 1, parens, nl, <<>>)
RenderOperands(t, j, parens, nl, acc) ==
  IF j > Len(t.as) THEN acc
  ELSE LET a == t.as[j]
           s == Render(a, parens, nl)
           \* an operand needs parentheses if it binds looser, or equally (n-ary folding would merge it)
           need == Prec(a) <= Prec(t) \/ (parens = "all" /\ a.op # "leaf")
           opnd == IF need THEN Wrap(s, nl) ELSE s
           sep == IF j = 1 THEN <<>> ELSE <<IF t.op = "and" THEN "&&" ELSE "||">> \o (IF nl = "afterop" THEN <<"NL", "NL">> ELSE <<>>)
       IN RenderOperands(t, j + 1, parens, nl, acc \o sep \o opnd)

Layouts == {<<"min", "none">>, <<"all", "none">>, <<"min", "afterop">>, <<"all", "inparens">>, <<"outer", "none">>,
            <<"outer", "inparens">>}
RenderL(t, l) == IF l[1] = "outer" THEN Wrap(Render(t, "min", l[2]), l[2]) ELSE Render(t, l[1], l[2])

-----------------------------------------------------------------------------
(* The machines                                                             *)
VARIABLES ts,      \* "strings": the token string;  "trees": unused
          stack,   \* "trees": stack of trees being built in postfix order
          n, done
vars == <<ts, stack, n, done>>

Init == ts = <<>> /\ stack = <<>> /\ n = 0 /\ done = FALSE

Read(tok) == /\ Mode = "strings" /\ n < MaxTokens /\ tok \in Tok
             /\ ~(tok = "NL" /\ (ts = <<>> \/ (Len(ts) >= 2 /\ ts[Len(ts)] = "NL" /\ ts[Len(ts) - 1] = "NL")))
             /\ ts' = Append(ts, tok) /\ n' = n + 1 /\ UNCHANGED <<stack, done>>

Top == stack[Len(stack)]
PushLeaf(v) == /\ Mode = "trees" /\ ~done /\ n < MaxTokens /\ Len(stack) < 3
               /\ stack' = Append(stack, Leaf(v, 0)) /\ n' = n + 1 /\ UNCHANGED <<ts, done>>
Negate == /\ Mode = "trees" /\ ~done /\ n < MaxTokens /\ Len(stack) >= 1 /\ Top.op # "not"
          /\ stack' = Append(SubSeq(stack, 1, Len(stack) - 1), NotE(Top))
          /\ n' = n + 1 /\ UNCHANGED <<ts, done>>
\* combine the top k trees with one operator (n-ary node); operands of the same operator stay separate nodes
Combine(o, k) == /\ Mode = "trees" /\ ~done /\ n < MaxTokens /\ Len(stack) >= k
                 /\ stack' = Append(SubSeq(stack, 1, Len(stack) - k),
                                    Nary(o, SubSeq(stack, Len(stack) - k + 1, Len(stack))))
                 /\ n' = n + 1 /\ UNCHANGED <<ts, done>>
Finish == /\ Mode = "trees" /\ ~done /\ Len(stack) = 1 /\ done' = TRUE /\ UNCHANGED <<ts, stack, n>>

Next == \/ \E tok \in Tok : Read(tok)
        \/ \E v \in {"T", "F"} : PushLeaf(v)
        \/ Negate \/ Finish
        \/ \E o \in {"and", "or"}, k \in 2..3 : Combine(o, k)
Spec == Init /\ [][Next]_vars

-----------------------------------------------------------------------------
(* Properties                                                               *)
\* a string the strict reading accepts is read the same way by the lenient one (the freedom is only about breaks
\* before infix operators)
LenientExtendsStrict ==
  Mode = "strings" => LET a == Parse(ts, FALSE) IN IsErr(a) \/ Shape(Parse(ts, TRUE)) = Shape(a)
\* evaluation is left to right: the log is strictly increasing in source position
RECURSIVE Increasing(_)
Increasing(s) == Len(s) <= 1 \/ (s[1] < s[2] /\ Increasing(Tail(s)))
LeftToRight == Mode = "strings" => Increasing(Denote(ts, TRUE).log)
\* every layout of every tree parses back to that tree, under both readings: redundant parentheses and the
\* permitted line breaks change nothing, precedence and n-ary folding are as documented
\* the quantifier binds like a prefix operator: over a one-element collection, erasing every "Q" from a well-formed
\* string leaves a well-formed string with the same value and the same primitives evaluated
Erase(s) == SelectSeq(s, LAMBDA t : t # "Q")
RECURSIVE CountQ(_, _)
CountQ(s, k) == IF k = 0 THEN 0 ELSE CountQ(s, k - 1) + (IF s[k] = "Q" THEN 1 ELSE 0)
ErasedLog(s, log) == [j \in 1..Len(log) |-> log[j] - CountQ(s, log[j])]
QuantifierIsPrefixOperator ==
  (Mode = "strings" /\ Quant /\ QSem = "one") =>
     LET d == Denote(ts, TRUE) e == Denote(Erase(ts), TRUE) IN
     d.r # "ERR" => (e.r = d.r /\ e.log = ErasedLog(ts, d.log))
RoundTrip ==
  (Mode = "trees" /\ done) =>
     \A l \in Layouts : LET r == RenderL(Top, l) IN
        Shape(Parse(r, FALSE)) = Shape(Top) /\ Shape(Parse(r, TRUE)) = Shape(Top)
=============================================================================
