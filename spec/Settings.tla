------------------------------ MODULE Settings ------------------------------
(***************************************************************************)
(* C11: settings persist forward - cd, env (act set / non-act set, with    *)
(* ${name} expansion), timeout, def.                                       *)
(*                                                                         *)
(* A test case is a HISTORY: a sequence of setting instructions            *)
(*     env [-of act | -of !act] NAME = VALUE     env [..] unset NAME       *)
(*     cd PATH      timeout = N | none      def ...      $ cd a (a child   *)
(*     process that changes ITS directory)                                 *)
(* distributed over [setup] [before-assert] [assert] [cleanup] as a PLAN   *)
(* says (so many instructions per phase), interleaved with PROBES: OS      *)
(* processes that record the tracked environment variables, their current  *)
(* directory, the symbols they are given and their own id.  The layout of  *)
(* a phase with settings s1..sn is   P s1 P s2 .. P sn   (a probe before   *)
(* every setting: "none before it"; no probe after the last one, so that   *)
(* the last instruction of [setup] is a setting and the process of the act *)
(* phase is the first to observe it), a phase without settings is one      *)
(* probe, [cleanup] ends with one more probe, and the action to check of   *)
(* [act] is itself a probe (it is the one process that sees the act set).  *)
(*                                                                         *)
(* The machine executes the history as Exactly is documented to: one       *)
(* action per instruction, phases in order.  State: the two sets of        *)
(* environment variables, the current directory, the timeout, the symbols. *)
(* Every probe appends what it must see to `probes`; that sequence (and    *)
(* the verdict) is what the real program is compared with.                 *)
(*                                                                         *)
(* Environment: functions from names to [s |-> set?, v |-> value]; values  *)
(* are strings.  A VALUE template is a sequence of parts <<"lit", text>> / *)
(* <<"ref", name>> (written ${VERIF_name}); it is expanded against THE SET *)
(* BEING CHANGED, a name that is not set there giving the empty string.    *)
(* VALUE may also be produced by a program (-stdout-from PROGRAM): that    *)
(* program is one more process; it "will be executed in an environment     *)
(* with the environment variables of the specified phase" (help of env),   *)
(* i.e. it is the one non-act process that sees the act set when the act   *)
(* set is what is being changed.                                           *)
(*                                                                         *)
(* PHASE-SPEC: documented for [setup] only (`-of act`: the action to check *)
(* only; `-of !act`: all processes but the action to check; neither:       *)
(* both).  After [setup] the act set has no reader left: DESIGN C.7 gives  *)
(* `-of act` no effect there and lets `-of !act` / nothing change the      *)
(* non-act set.  The manual does not list PHASE-SPEC after [setup], so a   *)
(* history that uses it there may also be refused (see SettingsExport).    *)
(*                                                                         *)
(* Timeout: "default" (60 s), "t1" (the short limit: 1 s wherever a        *)
(* process sleeps), "t30" (30 s), "none".  In family "timed" exactly one   *)
(* probe of the case is a SLEEPER (it records, sleeps 3 s, records again): *)
(* it is killed iff the timeout in force is t1; the case is then a         *)
(* HARD_ERROR, the rest of the phase and the phases before [cleanup] are   *)
(* skipped and [cleanup] is executed.  A timeout is per process: no other  *)
(* probe comes near any of the limits.                                     *)
(***************************************************************************)
EXTENDS Naturals, Sequences, FiniteSets, TLC

CONSTANTS
  Families,       \* families of histories explored: subset of {"env", "misc", "all", "timed"}
  EnvPlans, MiscPlans, AllPlans, TimedPlans,
                  \* per family, the plans: a plan is the decimal number
                  \*   1000 * #settings in setup + 100 * in before-assert + 10 * in assert + in cleanup
  Names,          \* the variables that instructions set and unset (subset of {"A", "B", "C"})
  OsSet,          \* the tracked variables that are set (to "o") in the environment Exactly is started with
  SetupTpls,      \* VALUE templates explored in [setup]            (family "env")
  LaterTpls,      \* VALUE templates explored in the later phases   (family "env")
  AllTpls,        \* VALUE templates of family "all"
  ProgTpls,       \* templates that are ALSO explored with the text produced by a program
  LaterTargets,   \* PHASE-SPECs explored after [setup] (subset of {"act", "nonact", "both"}; "both" = none given)
  CdForms,        \* subset of {"act", "tmp", "sub", "up"}
  TimeoutVals,    \* subset of {"t1", "t30", "none"}
  DefKinds,       \* subset of {"str", "path", "pgm"}
  WithChildCd,    \* BOOLEAN
  Deviations      \* named deviations switched on ({} whenever a property is checked)

Dev(d) == d \in Deviations

\* ---- vocabulary -----------------------------------------------------------------------------
PhaseSeq    == <<"setup", "act", "ba", "assert", "cleanup">>
InstrPhases == {"setup", "ba", "assert", "cleanup"}
AllNames    == Names \cup {"A", "B", "U"}      \* every variable a probe reports ("U" is never set)
Targets     == {"act", "nonact", "both"}
MaxCwdLen   == 4
Unset       == [s |-> FALSE, v |-> ""]
Val(str)    == [s |-> TRUE, v |-> str]
OsEnvInit   == [n \in AllNames |-> IF n \in OsSet THEN Val("o") ELSE Unset]

L(c) == <<"lit", c>>
R(n) == <<"ref", n>>
TplParts(t) == CASE t = "E"   -> <<>>                          \* ""
                 [] t = "x"   -> <<L("x")>>
                 [] t = "y"   -> <<L("y")>>
                 [] t = "Ay"  -> <<R("A"), L("y")>>            \* "${VERIF_A}y"
                 [] t = "xB"  -> <<L("x"), R("B")>>
                 [] t = "U"   -> <<R("U")>>                    \* an unknown name: the empty string
                 [] t = "BA"  -> <<R("B"), R("A")>>
                 [] t = "qUA" -> <<L("q"), R("U"), R("A")>>
                 [] t = "AxA" -> <<R("A"), L("x"), R("A")>>
                 [] t = "D"   -> <<L("$VERIF_A")>>             \* not of the form ${name}: stays as it is
                 [] t = "DB"  -> <<L("${VERIF_A"), R("B")>>    \* an unterminated reference stays as it is

RECURSIVE Expand(_, _)
Expand(parts, S) ==
  IF parts = <<>> THEN ""
  ELSE LET p == Head(parts) IN
       (IF p[1] = "lit" THEN p[2] ELSE IF S[p[2]].s THEN S[p[2]].v ELSE "") \o Expand(Tail(parts), S)

PlanCount(p, ph) == CASE ph = "setup"   -> (p \div 1000) % 10
                      [] ph = "ba"      -> (p \div 100) % 10
                      [] ph = "assert"  -> (p \div 10) % 10
                      [] ph = "cleanup" -> p % 10
                      [] OTHER          -> 0
PlansOf(f) == CASE f = "env" -> EnvPlans [] f = "misc" -> MiscPlans [] f = "all" -> AllPlans [] f = "timed" -> TimedPlans

VARIABLES fam, plan,     \* the family and the plan of the case (chosen in Init)
          pi,            \* index into PhaseSeq of the phase being executed (6: the case has ended)
          cnt,           \* number of setting instructions executed in this phase
          due,           \* a probe is due (phase start / a setting has been executed since the last probe)
          hist,          \* the setting instructions executed so far: [ph, op, a, b, c, d]
          probes,        \* what every process started so far must have seen
          nprobe,        \* number of probe instructions so far (their ids)
          osEnv,         \* the environment Exactly was started with
          actEnv,        \* the environment variables of the action to check
          nonActEnv,     \* the environment variables of every other process
          cwd,           \* the current directory: components below the sandbox root
          timeout,       \* "default" | "t1" | "t30" | "none"
          syms,          \* kinds of symbols defined so far
          timedUsed,     \* (family "timed") the sleeper has been placed
          killedIn       \* "-" or the phase in which the sleeper was killed
vars == <<fam, plan, pi, cnt, due, hist, probes, nprobe, osEnv, actEnv, nonActEnv, cwd, timeout, syms,
          timedUsed, killedIn>>

Phase   == IF pi <= 5 THEN PhaseSeq[pi] ELSE "end"
Quota   == PlanCount(plan, Phase)
Done    == pi = 6
Verdict == IF killedIn = "-" THEN "PASS" ELSE "HARD_ERROR"

Init ==
  /\ fam \in Families /\ plan \in PlansOf(fam)
  /\ pi = 1 /\ cnt = 0 /\ due = TRUE /\ hist = <<>> /\ probes = <<>> /\ nprobe = 0
  /\ osEnv = OsEnvInit /\ actEnv = OsEnvInit /\ nonActEnv = OsEnvInit     \* "both start as the environment Exactly was started with"
  /\ cwd = <<"act">>                                                      \* "initialized to the act/ sub directory"
  /\ timeout = "default" /\ syms = {} /\ timedUsed = FALSE /\ killedIn = "-"

\* ---- probes ---------------------------------------------------------------------------------
\* the kind of instruction that starts the probe: fixed by the position, so that every kind meets every situation
KindList == (IF Phase = "assert" THEN <<"run", "stdout", "shell", "exitcode", "sys", "src">>
             ELSE <<"run", "shell", "sys", "src">>)
            \o (IF "pgm" \in syms THEN <<"pgmsym">> ELSE <<>>)
KindAt   == KindList[((nprobe + Len(hist) + plan) % Len(KindList)) + 1]

Rec(id, kind, sees, env, timed, killed) ==
  [id |-> id, ph |-> Phase, kind |-> kind, sees |-> sees, env |-> env, cwd |-> cwd, to |-> timeout,
   syms |-> syms, at |-> Len(hist), timed |-> timed, killed |-> killed]

ProbeWanted == Phase \in InstrPhases /\ due /\ (cnt < Quota \/ cnt = 0 \/ Phase = "cleanup")
Same == UNCHANGED <<fam, plan, osEnv>>

Probe ==
  /\ ProbeWanted /\ Same
  /\ probes' = Append(probes, Rec(<<"p", nprobe + 1>>, KindAt, "nonact", nonActEnv, FALSE, FALSE))
  /\ nprobe' = nprobe + 1 /\ due' = FALSE
  /\ UNCHANGED <<pi, cnt, hist, actEnv, nonActEnv, cwd, timeout, syms, timedUsed, killedIn>>

\* the sleeper: records, sleeps 3 s, records again - unless the timeout in force ends it
TimedProbe ==
  /\ fam = "timed" /\ ~timedUsed /\ ProbeWanted /\ Same
  /\ LET k == (timeout = "t1") IN
     /\ probes' = Append(probes, Rec(<<"p", nprobe + 1>>, KindAt, "nonact", nonActEnv, TRUE, k))
     /\ nprobe' = nprobe + 1 /\ timedUsed' = TRUE
     /\ IF k THEN /\ killedIn' = Phase
                  /\ pi' = (IF Phase = "cleanup" THEN 6 ELSE 5) /\ cnt' = 0 /\ due' = TRUE
             ELSE /\ killedIn' = killedIn /\ pi' = pi /\ cnt' = cnt /\ due' = FALSE
  /\ UNCHANGED <<hist, actEnv, nonActEnv, cwd, timeout, syms>>

\* the action to check: sees the act set, and directory / timeout / symbols as of the end of [setup]
\* ... preceded by the program that produces its stdin (stdin = -stdout-from PROGRAM, the last instruction of [setup]):
\* named in [setup], started for the act phase - a process like every other: it sees the NON-act set, as of then
Act ==
  /\ pi = 2 /\ Same
  /\ probes' = Append(Append(probes, Rec(<<"stdin", 0>>, "stdinsrc", "nonact", nonActEnv, FALSE, FALSE)),
                      Rec(<<"act", 0>>, "atc", "act", actEnv, FALSE, FALSE))
  /\ pi' = 3 /\ cnt' = 0 /\ due' = TRUE
  /\ UNCHANGED <<hist, nprobe, actEnv, nonActEnv, cwd, timeout, syms, timedUsed, killedIn>>

TimedAct ==
  /\ fam = "timed" /\ ~timedUsed /\ pi = 2 /\ Same
  /\ LET k == (timeout = "t1") IN
     /\ probes' = Append(probes, Rec(<<"act", 0>>, "atc", "act", actEnv, TRUE, k))
     /\ timedUsed' = TRUE /\ killedIn' = (IF k THEN "act" ELSE killedIn)
     /\ pi' = (IF k THEN 5 ELSE 3) /\ cnt' = 0 /\ due' = TRUE
  /\ UNCHANGED <<hist, nprobe, actEnv, nonActEnv, cwd, timeout, syms>>

\* ---- setting instructions --------------------------------------------------------------------
CanSet == Phase \in InstrPhases /\ ~due /\ cnt < Quota
Executed(i) == /\ hist' = Append(hist, i) /\ cnt' = cnt + 1 /\ due' = TRUE
               /\ UNCHANGED <<pi, nprobe, timedUsed, killedIn>>
Instr(op, a, b, c, d) == [ph |-> Phase, op |-> op, a |-> a, b |-> b, c |-> c, d |-> d]

TargetsNow == IF Phase = "setup" THEN Targets ELSE LaterTargets
TplsNow    == IF fam = "all" THEN AllTpls ELSE IF Phase = "setup" THEN SetupTpls ELSE LaterTpls
SrcsOf(t)  == IF t \in ProgTpls THEN {"lit", "prog"} ELSE {"lit"}
\* which set(s) an env instruction with PHASE-SPEC t changes in the current phase
OnAct(t)   == Phase = "setup" /\ t \in {"act", "both"}
OnNon(t)   == t \in {"nonact", "both"}
\* deviation (sharpness control): the act set is built anew from the start environment on every change
ActBase    == IF Dev("ActSetReinitialised") THEN osEnv ELSE actEnv

EnvSet ==
  /\ CanSet /\ fam \in {"env", "all"} /\ Same
  /\ \E t \in TargetsNow, n \in Names, tpl \in TplsNow :
       \E src \in SrcsOf(tpl) :
         LET parts == TplParts(tpl)
             id    == <<"e", Len(hist) + 1>>
             \* VALUE from a program: one more process per set that is changed, in the environment of that set
             ran   == IF src = "lit" THEN <<>>
                      ELSE (IF OnAct(t) THEN <<Rec(id, "envsrc", "act", actEnv, FALSE, FALSE)>> ELSE <<>>)
                           \o (IF OnNon(t) THEN <<Rec(id, "envsrc", "nonact", nonActEnv, FALSE, FALSE)>> ELSE <<>>)
         IN
         /\ actEnv' = IF OnAct(t) THEN [ActBase EXCEPT ![n] = Val(Expand(parts, ActBase))] ELSE actEnv
         /\ nonActEnv' = IF OnNon(t) THEN [nonActEnv EXCEPT ![n] = Val(Expand(parts, nonActEnv))] ELSE nonActEnv
         /\ probes' = probes \o ran
         /\ Executed(Instr("set", t, n, tpl, src))
  /\ UNCHANGED <<cwd, timeout, syms>>

EnvUnset ==
  /\ CanSet /\ fam \in {"env", "all"} /\ Same
  /\ \E t \in TargetsNow, n \in Names :
       /\ actEnv' = IF OnAct(t) THEN [ActBase EXCEPT ![n] = Unset] ELSE actEnv
       /\ nonActEnv' = IF OnNon(t) THEN [nonActEnv EXCEPT ![n] = Unset] ELSE nonActEnv
       /\ Executed(Instr("unset", t, n, "-", "-"))
  /\ UNCHANGED <<probes, cwd, timeout, syms>>

CdTarget(f) == CASE f = "act" -> <<"act", "a">>              \* cd -rel-act a
                 [] f = "tmp" -> <<"tmp", "a">>              \* cd -rel-tmp a
                 [] f = "sub" -> Append(cwd, "a")            \* cd a
                 [] f = "up"  -> SubSeq(cwd, 1, Len(cwd) - 1)  \* cd ..
CdOk(f) == /\ (f = "sub") => Len(cwd) < MaxCwdLen
           /\ (f = "up")  => Len(cwd) >= 2                   \* (the exploration stays below act/ and tmp/)

Cd ==
  /\ CanSet /\ fam \in {"misc", "all"} /\ Same
  /\ \E f \in CdForms : /\ CdOk(f) /\ cwd' = CdTarget(f) /\ Executed(Instr("cd", f, "-", "-", "-"))
  /\ UNCHANGED <<probes, actEnv, nonActEnv, timeout, syms>>

Timeout ==
  /\ CanSet /\ fam \in {"misc", "all", "timed"} /\ Same
  /\ \E v \in TimeoutVals : /\ timeout' = v /\ Executed(Instr("timeout", v, "-", "-", "-"))
  /\ UNCHANGED <<probes, actEnv, nonActEnv, cwd, syms>>

\* def string S = sv | def path P = -rel-cd a | def program G = <the probe>: from here on every probe is given them
Def ==
  /\ CanSet /\ fam \in {"misc", "all"} /\ Same
  /\ \E k \in DefKinds \ syms : /\ syms' = syms \cup {k} /\ Executed(Instr("def", k, "-", "-", "-"))
  /\ UNCHANGED <<probes, actEnv, nonActEnv, cwd, timeout>>

\* a child process that changes its own directory
ChildCd ==
  /\ CanSet /\ fam \in {"misc", "all"} /\ WithChildCd /\ Same
  /\ Executed(Instr("childcd", "-", "-", "-", "-"))
  /\ UNCHANGED <<probes, actEnv, nonActEnv, cwd, timeout, syms>>

NextPhase ==
  /\ Phase \in InstrPhases /\ cnt = Quota /\ Same
  /\ IF Phase = "cleanup" THEN ~due ELSE (~due \/ cnt > 0)
  /\ pi' = pi + 1 /\ cnt' = 0 /\ due' = TRUE
  /\ UNCHANGED <<hist, probes, nprobe, actEnv, nonActEnv, cwd, timeout, syms, timedUsed, killedIn>>

Next == Probe \/ TimedProbe \/ Act \/ TimedAct \/ EnvSet \/ EnvUnset \/ Cd \/ Timeout \/ Def \/ ChildCd \/ NextPhase
Spec == Init /\ [][Next]_vars

\* ---- the reference semantics, read off the history (DESIGN Appendix C.7) ---------------------------
\* does instruction i change the set w ("act" / "nonact")
Affects(i, w) == /\ i.op \in {"set", "unset"}
                 /\ IF i.ph = "setup" THEN i.a \in {w, "both"} ELSE (w = "nonact" /\ i.a # "act")
ApplyEnv(i, S) == IF i.op = "set" THEN [S EXCEPT ![i.b] = Val(Expand(TplParts(i.c), S))] ELSE [S EXCEPT ![i.b] = Unset]
RECURSIVE EnvAfter(_, _)
EnvAfter(k, w) == IF k = 0 THEN OsEnvInit
                  ELSE IF Affects(hist[k], w) THEN ApplyEnv(hist[k], EnvAfter(k - 1, w)) ELSE EnvAfter(k - 1, w)
RECURSIVE CwdAfter(_)
CwdAfter(k) == IF k = 0 THEN <<"act">>
               ELSE LET i == hist[k]  c == CwdAfter(k - 1) IN
                    IF i.op # "cd" THEN c
                    ELSE CASE i.a = "act" -> <<"act", "a">> [] i.a = "tmp" -> <<"tmp", "a">>
                           [] i.a = "sub" -> Append(c, "a") [] i.a = "up" -> SubSeq(c, 1, Len(c) - 1)
RECURSIVE TimeoutAfter(_)
TimeoutAfter(k) == IF k = 0 THEN "default" ELSE IF hist[k].op = "timeout" THEN hist[k].a ELSE TimeoutAfter(k - 1)
SymsAfter(k) == {hist[j].a : j \in {j \in 1..k : hist[j].op = "def"}}
NumSetup == Cardinality({k \in 1..Len(hist) : hist[k].ph = "setup"})
IsPrefix(a, b) == Len(a) <= Len(b) /\ SubSeq(b, 1, Len(a)) = a
PhaseIdx(ph) == CHOOSE j \in 1..5 : PhaseSeq[j] = ph

\* ---- properties (checked with Deviations = {}) ---------------------------------------------------
TypeOK ==
  /\ pi \in 1..6 /\ cnt \in 0..9 /\ due \in BOOLEAN /\ timeout \in {"default", "t1", "t30", "none"}
  /\ syms \subseteq {"str", "path", "pgm"} /\ Len(cwd) \in 1..MaxCwdLen /\ cwd[1] \in {"act", "tmp"}
  /\ \A n \in AllNames : actEnv[n].s \in BOOLEAN /\ nonActEnv[n].s \in BOOLEAN
  /\ killedIn \in {"-", "setup", "act", "ba", "assert", "cleanup"}

\* the action to check sees the act set - as of the END of [setup], its last instruction included
ActSeesActSet ==
  \A j \in 1..Len(probes) :
     LET p == probes[j] IN
     /\ (p.sees = "act") => p.env = EnvAfter(p.at, "act")
     /\ (p.kind = "atc") => /\ p.sees = "act" /\ p.at = NumSetup
                            /\ \A k \in 1..Len(hist) : (hist[k].ph = "setup") <=> (k <= p.at)
\* every other process sees the non-act set, as of its own instruction; the one exception is documented: the
\* program that produces the VALUE of `env -of act` / `env` (it sees the set that is being changed)
OthersSeeNonActSet ==
  \A j \in 1..Len(probes) :
     LET p == probes[j] IN
     /\ (p.sees = "nonact") => p.env = EnvAfter(p.at, "nonact")
     /\ (p.kind \notin {"atc", "envsrc"}) => p.sees = "nonact"
     /\ (p.kind = "envsrc" /\ p.sees = "act") => (p.ph = "setup" /\ hist[p.at + 1].a \in {"act", "both"})
\* a set that no instruction has changed yet is the environment Exactly was started with
BothStartAsOsEnv ==
  \A j \in 1..Len(probes) :
     LET p == probes[j] IN
     (\A k \in 1..p.at : ~Affects(hist[k], p.sees)) => p.env = osEnv
OsEnvUntouched == osEnv = OsEnvInit
\* a literal value is seen by every later process of that set, in every later phase, until the name is changed again
\* (the templates "x" and "y" are the literals x and y)
LiteralSeenLater ==
  \A k \in 1..Len(hist) : \A j \in 1..Len(probes) :
     LET i == hist[k]  p == probes[j] IN
     (/\ i.op = "set" /\ i.c \in {"x", "y"} /\ Affects(i, p.sees) /\ p.at >= k
      /\ \A m \in (k + 1)..p.at : ~(Affects(hist[m], p.sees) /\ hist[m].b = i.b))
     => p.env[i.b] = Val(i.c)
\* -of !act never reaches the action to check, -of act nothing else; after [setup] the act set is final
SetsIndependent ==
  \A k \in 1..Len(hist) :
     LET i == hist[k] IN
     /\ (i.op \in {"set", "unset"} /\ i.a = "nonact") => EnvAfter(k, "act") = EnvAfter(k - 1, "act")
     /\ (i.op \in {"set", "unset"} /\ i.a = "act") => EnvAfter(k, "nonact") = EnvAfter(k - 1, "nonact")
     /\ (i.ph # "setup") => EnvAfter(k, "act") = EnvAfter(k - 1, "act")
ActSetFinalAfterSetup == (pi >= 2) => actEnv = EnvAfter(NumSetup, "act")
CwdForward     == /\ cwd = CwdAfter(Len(hist))
                  /\ \A j \in 1..Len(probes) : probes[j].cwd = CwdAfter(probes[j].at)
TimeoutForward == /\ timeout = TimeoutAfter(Len(hist))
                  /\ \A j \in 1..Len(probes) : probes[j].to = TimeoutAfter(probes[j].at)
DefForward     == /\ syms = SymsAfter(Len(hist))
                  /\ \A j \in 1..Len(probes) : probes[j].syms = SymsAfter(probes[j].at)
\* the timeout ends the sleeper iff a limit shorter than its sleep is in force; what follows a kill
KilledIffLimit ==
  /\ \A j \in 1..Len(probes) : probes[j].killed <=> (probes[j].timed /\ probes[j].to = "t1")
  /\ (killedIn # "-") <=> (\E j \in 1..Len(probes) : probes[j].killed)
  /\ \A j \in 1..Len(probes) : \A m \in (j + 1)..Len(probes) : probes[j].killed => probes[m].ph = "cleanup"
  /\ Cardinality({j \in 1..Len(probes) : probes[j].timed}) <= 1

\* action properties
\* what a process has seen is not changed by anything that comes later ("and for none before it")
ForwardOnly      == [][IsPrefix(probes, probes')]_vars
\* only `cd` moves the current directory: not a child that changes its own, not the action to check, not a probe
ChildCdInvisible == [][(cwd' # cwd) => (Len(hist') = Len(hist) + 1 /\ hist'[Len(hist')].op = "cd")]_vars
SettingsOnlyByInstructions ==
  [][(Len(hist') = Len(hist)) => UNCHANGED <<actEnv, nonActEnv, cwd, timeout, syms, osEnv>>]_vars
=============================================================================
