------------------------------ MODULE Exactly ------------------------------
(***************************************************************************)
(* The top level: one invocation `exactly [--keep|--act] CASE` from the    *)
(* command line to the process' exit code and streams, composing the       *)
(* stages in the order of the code:                                        *)
(*                                                                         *)
(*   ParseArgs -> ReadFile -> Preprocess -> ParseDocument                  *)
(*             -> Execute (the whole of PhaseExec, step by step)           *)
(*             -> Report (the reporter of the output mode) -> exit         *)
(*                                                                         *)
(* Each stage before execution may end the run with its documented         *)
(* verdict.  Execution is PhaseExec unchanged: every fault sequence of     *)
(* every shape of case.  The action to check writes through to the         *)
(* process' streams while it runs (--act).  The reporter then writes what  *)
(* OutcomeReport specifies - here for EVERY behaviour of the executor, not *)
(* for a chosen way of ending.  Streams are sequences of the tokens of     *)
(* OutcomeReport: <<"ID", v>>, <<"SDS">>, <<"ATCOUT">>, <<"ATCERR">>,      *)
(* <<"MSG">>.                                                              *)
(***************************************************************************)
EXTENDS PhaseExec

O == INSTANCE Outcome

CONSTANT AtcExits

VARIABLES stage,    \* args / read / preprocess / parse / exec / report / exit
          pre,      \* how the run ended before execution: none / usage / file-access / preproc / syntax
          atcExit,  \* the exit code of the action to check
          xout, xerr, xexit
xvars == <<vars, stage, pre, atcExit, xout, xerr, xexit>>

XInit == /\ Init /\ stage = "args" /\ pre = "none" /\ atcExit \in AtcExits
         /\ xout = <<>> /\ xerr = <<>> /\ xexit = 0

Keep == UNCHANGED <<vars, atcExit, xout, xerr, xexit>>
\* a stage either succeeds or ends the run with its own verdict
StageOk(from, to) == stage = from /\ stage' = to /\ UNCHANGED pre /\ Keep
StageFails(from, how) == stage = from /\ stage' = "report" /\ pre' = how /\ Keep
ParseArgs == StageOk("args", "read") \/ StageFails("args", "usage")
ReadFile == StageOk("read", "preprocess") \/ StageFails("read", "usage")          \* no such file: invalid usage
Preprocess == StageOk("preprocess", "parse") \/ StageFails("preprocess", "preproc")
ParseDocument == StageOk("parse", "exec") \/ StageFails("parse", "syntax") \/ StageFails("parse", "file-access")

\* execution: PhaseExec takes a step; with --act a successful act/execute step passes the action's output through
ActRan == \E a \in 1..Len(log) : log[a] = <<"execute", "act", 1, "ok">>
Execute ==
  /\ stage = "exec" /\ ~(done /\ result # <<>>)
  /\ Next
  \* PhaseExec leaves open which of a failing step and a failing cleanup instruction is named; the manual adds:
  \* "an error is reported as an error, and not as a failed test" - a failing ASSERTION never hides a cleanup error
  /\ (result' # <<>> /\ cfail # <<>>) => result'[3] # "FAIL"
  /\ IF mode = "act" /\ Len(log') > Len(log) /\ log'[Len(log')] = <<"execute", "act", 1, "ok">>
     THEN xout' = Append(xout, <<"ATCOUT">>) /\ xerr' = Append(xerr, <<"ATCERR">>)
     ELSE UNCHANGED <<xout, xerr>>
  /\ UNCHANGED <<stage, pre, atcExit, xexit>>
ExecuteDone == /\ stage = "exec" /\ done /\ result # <<>> /\ stage' = "report" /\ UNCHANGED pre /\ Keep

Verdict == CASE pre = "usage" -> "-"
             [] pre = "file-access" -> "FILE_ACCESS_ERROR"
             [] pre = "preproc" -> "PRE_PROCESS_ERROR"
             [] pre = "syntax" -> "SYNTAX_ERROR"
             [] OTHER -> O!Verdict(tcStatus, result[3])
Complete == pre = "none" /\ result # <<>> /\ result[3] = "PASS" /\ tcStatus # "SKIP"
MsgIfAny(v) == IF v \in {"PASS", "SKIPPED", "XPASS"} THEN <<>> ELSE <<<<"MSG">>>>
WriteReport ==
  /\ stage = "report" /\ stage' = "exit"
  /\ LET v == Verdict IN
     CASE v = "-" -> xexit' = O!UsageErrorExitCode /\ xerr' = xerr \o <<<<"MSG">>>> /\ UNCHANGED xout
       [] v # "-" /\ mode = "normal" ->
            xout' = xout \o <<<<"ID", v>>>> /\ xerr' = xerr \o MsgIfAny(v) /\ xexit' = O!ExitCode(v)
       [] v # "-" /\ mode = "keep" ->
            /\ xout' = xout \o (IF sds = "kept" THEN <<<<"SDS">>>> ELSE <<>>)
            /\ xerr' = xerr \o <<<<"ID", v>>>> \o MsgIfAny(v) /\ xexit' = O!ExitCode(v)
       [] v # "-" /\ mode = "act" ->
            IF Complete THEN xexit' = atcExit /\ UNCHANGED <<xout, xerr>>
            ELSE xexit' = O!ExitCode(v) /\ xerr' = xerr \o <<<<"ID", v>>>> \o MsgIfAny(v) /\ UNCHANGED xout
  /\ UNCHANGED <<vars, pre, atcExit>>

XNext == ParseArgs \/ ReadFile \/ Preprocess \/ ParseDocument \/ Execute \/ ExecuteDone \/ WriteReport
XSpec == XInit /\ [][XNext]_xvars

\* ---- properties of the composition ----------------------------------------------------------
Exited == stage = "exit"
Ids(s) == SelectSeq(s, LAMBDA t : t[1] = "ID")
\* nothing is executed - not even [conf] - unless every earlier stage succeeded
NothingBeforeParsing == (stage \in {"args", "read", "preprocess", "parse"} \/ pre # "none") => (log = <<>> /\ sds = "none")
\* exit code and identifier correspond; exactly one identifier line (none for invalid usage and complete --act runs)
CodeMatchesIdentifier ==
  (Exited /\ ~(mode = "act" /\ Complete)) =>
     IF Verdict = "-" THEN xexit = 64 /\ Ids(xout) = <<>> /\ Ids(xerr) = <<>> /\ xout = <<>>
     ELSE xexit = O!ExitCode(Verdict) /\ Len(Ids(xout)) + Len(Ids(xerr)) = 1
          /\ (Ids(xout) \o Ids(xerr))[1][2] = Verdict
KeepStdoutIsOnlyPath ==
  (Exited /\ mode = "keep" /\ Verdict # "-") => xout = (IF sds = "kept" THEN <<<<"SDS">>>> ELSE <<>>)
ActModePassThrough ==
  (Exited /\ mode = "act") =>
     /\ Complete => (xexit = atcExit /\ xout = <<<<"ATCOUT">>>> /\ xerr = <<<<"ATCERR">>>>)
     /\ Ids(xout) = <<>>
     /\ (pre = "none" /\ ActRan) => (xout # <<>> /\ xout[1] = <<"ATCOUT">>)
     /\ ~(pre = "none" /\ ActRan) => xout = <<>>
\* success is reported only if every executed step succeeded; an error is never reported as a failed test
SuccessMeansNoFailure ==
  (Exited /\ Verdict \in {"PASS", "XPASS"}) => (\A a \in 1..Len(log) : log[a][4] = "ok")
\* the sandbox survives the run exactly with --keep
SandboxFate == Exited => (IF mode = "keep" THEN sds \in {"none", "kept"} ELSE sds \in {"none", "removed"})
Terminates == <>Exited
=============================================================================
