-------------------------- MODULE LineFilterExport --------------------------
(* Export for replay against the real program:                                            *)
(*  - every finished expression with the lines `filter` must keep, per text length;       *)
(*  - every list of up to MaxRanges ranges with bounds in -(MaxLines+2)..(MaxLines+2).    *)
EXTENDS LineFilter, Json, Randomization

CONSTANTS MaxRanges, RandomRangeLists

Export == done =>
   PrintT(<<"CASE", ToJson([e |-> Expr, sel0 |-> Filter(Expr, 0), sel1 |-> Filter(Expr, 1),
                            selN |-> Filter(Expr, MaxLines), n |-> MaxLines,
                            interval |-> P("l", Expr).pos])>>)

Bounds == (0 - MaxLines - 2)..(MaxLines + 2)
RangeSpecs == {<<"single", a>> : a \in Bounds} \cup {<<"upto", a>> : a \in Bounds}
              \cup {<<"from", a>> : a \in Bounds} \cup {<<"range", a, b>> : a \in Bounds, b \in Bounds}
RangeRec(rs) == [rs |-> rs, sel0 |-> RangeSel(rs, 0), sel1 |-> RangeSel(rs, 1), selN |-> RangeSel(rs, MaxLines),
                 n |-> MaxLines]
RangeLists1 == IF MaxRanges >= 1 THEN {<<a>> : a \in RangeSpecs} ELSE {}
RangeLists2 == IF MaxRanges >= 2 THEN {<<a, b>> : a \in RangeSpecs, b \in RangeSpecs} ELSE {}
\* longer lists: a random sample (seeded by TLC's -seed)
RandomLists(len) == {[j \in 1..len |-> RandomElement(RangeSpecs)] : x \in 1..RandomRangeLists}
ASSUME ExportRanges ==
   /\ \A rs \in RangeLists1 \cup RangeLists2 : PrintT(<<"RANGES", ToJson(RangeRec(rs))>>)
   /\ \A len \in 3..4 : \A rs \in RandomLists(len) : PrintT(<<"RANGES", ToJson(RangeRec(rs))>>)
=============================================================================
