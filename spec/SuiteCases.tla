----------------------------- MODULE SuiteCases -----------------------------
(***************************************************************************)
(* C17: cases are independent; suite contents apply alike standalone and   *)
(* in a suite run.                                                         *)
(*                                                                         *)
(* One behaviour of this module is one invocation of the program - one OS  *)
(* process - on a small tree of suite and case files:                      *)
(*    way "suite"    exactly suite ROOT          (every case of the tree)  *)
(*    way "option"   exactly --suite SUITE CASE  (one case)                *)
(*    way "beside"   exactly CASE, exactly.suite in the directory of CASE  *)
(*    way "plain"    exactly CASE, no suite                                *)
(* The process is a step machine in the order of the code: resolve the     *)
(* suite(s) and what they contribute; then per case: access (preprocess,   *)
(* merge the contents of the suite into the case), [conf], parse [act],    *)
(* validate symbols, create the sandbox (the settings of the case start as *)
(* COPIES of the state of the process), one step per instruction, remove   *)
(* the sandbox and restore the process.  The state of the process          *)
(*    P = (environment, current directory, default timeout, predefined     *)
(*         symbols)                                                        *)
(* is threaded through all cases of the invocation; the settings of the    *)
(* running case are L.  Instruction objects that come from a suite file    *)
(* are shared by all cases of that suite (variable cache: what such an     *)
(* object remembers from an earlier case).                                 *)
(*                                                                         *)
(* Beside the machine stands the declarative reading of the property:      *)
(* Alone(doc, c, pp) is what case c does when its document is executed     *)
(* from the initial state of a fresh process, and Merge is "contents of    *)
(* the suite first, in [cleanup] last".  The invariants relate the two.    *)
(*                                                                         *)
(* Three families of inputs:                                               *)
(*   hist   a suite without contents that lists a sequence of cases, each  *)
(*          of a kind (mutation, ending): cases that change a setting in   *)
(*          [setup] (env of both / one set, unset, ${} expansion, cd,      *)
(*          timeout, def, files in act/ and tmp/, stdin), in [conf]        *)
(*          (status, actor) or in a later phase (env, def, cd, timeout),   *)
(*          cases that cannot be executed (syntax error, undefined symbol, *)
(*          SKIP), and that end in PASS, FAIL or HARD_ERROR ([setup],      *)
(*          [act], [cleanup]); every case observes at its start, after its *)
(*          change, and in its action to check                             *)
(*   merge  a root suite with contents in the phases s0 that lists case 1, *)
(*          and a sub-suite with contents in the phases s1 that lists case *)
(*          2; both cases have contents in the phases cs; every            *)
(*          instruction is a probe; [conf] of a suite sets actor, status   *)
(*          and the preprocessor, [conf] of a case the status              *)
(*   sds    a suite whose instructions have values that depend on the      *)
(*          sandbox of the running case, listing n cases                   *)
(*   sym    a suite whose instructions have values that depend on a symbol *)
(*          that every case defines with a value of its own (INTEGER,      *)
(*          STRING, REGEX, PATH, LIST, program, matchers, transformers);   *)
(*          cases with different values, in every order                    *)
(* (family "file": histories read from a file - seeded random ones)        *)
(***************************************************************************)
EXTENDS Naturals, Sequences, FiniteSets, TLC, Json, IOUtils

CONSTANTS Families,      \* subset of {"hist", "merge", "sds", "sym", "file"}
          Deviations,    \* named deviations switched on; {} whenever the property is checked
          Muts,          \* hist: the mutations explored (with ending "pass")
          CoreMuts,      \* hist: mutations also explored with every ending of Ends, and in the longer histories
          Ends,          \* hist: subset of AllEnds (how a case ends)
          LaterMuts,     \* hist: mutations allowed at positions 2.. of the histories of length <= LenAll
          LenAll,        \* hist: histories of length <= LenAll over all kinds (first position) / later kinds
          LenCore,       \* hist: histories of length <= LenCore over CoreMuts x {"pass"}
          MergeCaseSets, \* merge: cs in "two" {all, complement of s0}, "corners" {none, all, s0, complement of s0},
                         \*        or "all" (every subset)
          Ways,          \* merge: subset of {"suite", "option", "beside"}
          SdsKinds,      \* sds: the kinds of sandbox dependent instructions
          SdsCases,      \* sds: set of numbers of cases
          SymKinds,      \* sym: the kinds of symbol dependent instructions
          SymVals,       \* sym: the values a case may give its symbols: subset of {"v1", "v2", "v3"}
          SymLen         \* sym: suites of 2..SymLen cases (not all with the same value)

\* Named deviations of a program from this specification.  A check always runs with Deviations = {}.  Each name
\* is one of the realistic defects the property excludes; switched on, TLC must refute the invariant named:
\*   EnvNotCopied        env writes through to the environment of the process         CasePure, OrderIrrelevant
\*   ConfShared          timeout / def write through to the defaults of the process   CasePure, OrderIrrelevant
\*   CwdNotRestored      the current directory of the process is not restored         CasePure
\*   SuiteContentsAfter  contents of the suite after those of the case (cleanup: before)   MergeOrder
\*   Inherited           contents of a suite also given to the cases of its sub-suites     NotInherited
\*   OptionIgnored       --suite ignored                                                   ThreeWaysAgree
\*   BesideIgnored       exactly.suite beside the case ignored                             ThreeWaysAgree
\*   SandboxValueCached  a shared instruction object remembers a sandbox dependent value   OwnSandbox
\*   SymbolValueCached   a shared instruction object remembers a symbol dependent value    OwnSymbols
\*   LineNumsRangeCached the same, for the range of `filter -line-nums` only (a finding)    OwnSymbols
\*   PreprocessorArgsAccumulate  the preprocessor of a suite keeps the arguments of earlier cases  ThreeWaysAgree
\*   ValidatedValueCached  a shared instruction object remembers that its value was well-formed   OwnSymbols
\*   ReferencesValidatedOnce  the references of a shared instruction object are checked for the first case only   OwnSymbols
DeviationNames == {"EnvNotCopied", "ConfShared", "CwdNotRestored", "SuiteContentsAfter", "Inherited",
                   "OptionIgnored", "BesideIgnored", "SandboxValueCached", "SymbolValueCached",
                   "LineNumsRangeCached", "PreprocessorArgsAccumulate", "ValidatedValueCached",
                   "ReferencesValidatedOnce"}
ASSUME Deviations \subseteq DeviationNames
Dev(d) == d \in Deviations

\* ---- documents -------------------------------------------------------------------------------
PhaseOrder == <<"conf", "setup", "act", "before-assert", "assert", "cleanup">>
PhaseNames == {PhaseOrder[j] : j \in DOMAIN PhaseOrder}
ExecOrder == <<"setup", "act", "before-assert", "assert", "cleanup">>
InstrPhases == <<"setup", "before-assert", "assert", "cleanup">>     \* phases made of instructions
EnvNames == {"A", "B"}
SymNames == {"X", "V"}   \* X: the symbol of the hist family; V: what a case of the sym family defines
NoVal == <<>>            \* a value is a sequence of atoms; the empty one: unset / undefined / empty

\* An instruction: operation, two string arguments, a value argument, and where it is written
\* ("case", "suite" = the root suite file, "sub" = the sub-suite file).
\*   conf:   status a=PASS|FAIL|SKIP      actor a=command|source|null
\*   other:  probe a=tag                  (an OS process that records what it sees)
\*           envSet a=scope b=name c=value   envApp (value: ${name} followed by c)   envUnset a=scope b=name
\*           cd a=tmp|up|sub|act   dir a=act|tmp b=name   file a=act|tmp b=name   copy a=tmp b=name
\*           pwdfile (tmp/pwd.txt := the current directory)
\*           timeout a="0"     sleep a=long|short (an OS process that takes time)
\*           def a=name c=value   ref a=name (an OS process that records the value)   stdin c=value
\*           fail (a failing assertion)   hard (a failing helper: HARD_ERROR)   bad (not an instruction: syntax error)
\*           sdsLog a=kind (records a value that depends on the sandbox)   sdsAssert a=kind (asserts on one)
\*           defOwn c=value (the definitions of a case of the sym family, and two files in tmp/ named after them)
\*           symLog a=kind (records a value that depends on the symbols)   symAssert a=kind (asserts on one)
\*           symTimeout a=kind (timeout = a symbol dependent INTEGER: 0 for the value v1, 60 otherwise)
\*   act:    actline a=sym|plain          (a line that makes the action to check a probe)
\*           actbad                       (a program that does not exist: the action to check cannot be executed)
\*           actown c=value               (prints as many lines, and exits with the code, that the value says)
I(op, a, b, c) == [op |-> op, a |-> a, b |-> b, c |-> c, org |-> "case"]
From(org, q) == [j \in DOMAIN q |-> [q[j] EXCEPT !.org = org]]
EmptyDoc == [p \in PhaseNames |-> <<>>]
DocFrom(org, d) == [p \in PhaseNames |-> From(org, d[p])]
Probe(tag) == I("probe", tag, "", NoVal)

RECURSIVE Flat(_)
Flat(qq) == IF qq = <<>> THEN <<>> ELSE Head(qq) \o Flat(Tail(qq))

\* ---- family hist: case kinds -----------------------------------------------------------------
AllMuts == {"none", "envAll", "envAct", "envNon", "unset", "unsetAct", "expand", "expandAct", "cdTmp", "cdUp",
            "cdSub", "timeout", "def", "refX", "files", "stdin", "statusFail", "statusSkip", "actorNull", "obsT",
            "syntaxErr", "envBA", "envCleanup", "defLate", "cdLate", "timeoutLate", "homeConf", "inclShared", "cdGone"}
\* "cdGone": the case changes into a directory it makes and REMOVES it in [cleanup] - it ends standing in a directory
\* that no longer exists; the next case begins where every case begins
\* "inclShared": the case includes (in [setup]) a file that every such case includes, and which supplies an instruction
\* of [assert] (org "incl": its text is in the shared file, the same for all cases).  What is included becomes part
\* of THAT case only, before the case's own instructions of the phase - whatever other cases put after theirs
\* "homeConf": the case sets its own home directory in [conf] (home = DIR).  That is a setting of THAT case: the
\* machine does not thread it through the process, and every other case finds the files of its own default home
\* (the harness lets every case that does not set it begin with an instruction that needs a file of that directory)
\* how a case ends: PASS; a failing assertion; a failing helper in [setup] directly after the change; an action to
\* check that cannot be executed; a failing helper in [cleanup]
AllEnds == {"pass", "fail", "hard", "acthard", "cleanuphard"}
ASSUME Muts \subseteq AllMuts /\ CoreMuts \subseteq Muts /\ LaterMuts \subseteq Muts /\ Ends \subseteq AllEnds

MutInstrs(m) ==
    CASE m = "envAll"    -> <<I("envSet", "all", "A", <<"va">>)>>
      [] m = "envAct"    -> <<I("envSet", "act", "A", <<"vb">>)>>
      [] m = "envNon"    -> <<I("envSet", "non", "A", <<"vc">>)>>
      [] m = "unset"     -> <<I("envUnset", "all", "B", NoVal)>>
      [] m = "unsetAct"  -> <<I("envUnset", "act", "B", NoVal)>>
      [] m = "expand"    -> <<I("envApp", "all", "B", <<"+">>)>>
      [] m = "expandAct" -> <<I("envApp", "act", "B", <<"*">>)>>
      [] m = "cdTmp"     -> <<I("cd", "tmp", "", NoVal)>>
      [] m = "cdUp"      -> <<I("cd", "up", "", NoVal)>>
      [] m = "cdSub"     -> <<I("dir", "act", "sub", NoVal), I("cd", "sub", "", NoVal)>>
      [] m = "cdGone"    -> <<I("dir", "act", "sub", NoVal), I("cd", "sub", "", NoVal)>>
      [] m = "timeout"   -> <<I("timeout", "0", "", NoVal), I("sleep", "long", "", NoVal)>>
      [] m = "def"       -> <<I("def", "X", "", <<"x1">>), I("ref", "X", "", NoVal)>>
      [] m = "refX"      -> <<I("ref", "X", "", NoVal)>>
      [] m = "files"     -> <<I("file", "act", "f.txt", NoVal), I("file", "tmp", "g.txt", NoVal)>>
      [] m = "stdin"     -> <<I("stdin", "", "", <<"s1">>)>>
      [] m = "obsT"      -> <<I("sleep", "short", "", NoVal)>>
      [] m = "syntaxErr" -> <<I("bad", "", "", NoVal)>>
      [] OTHER           -> <<>>
\* changes made in a later phase (other code paths than in [setup]), each followed by an observation
LateInstrs(m, p) ==
    CASE m = "envBA" /\ p = "before-assert"  -> <<I("envSet", "all", "A", <<"vd">>), Probe("pb")>>
      [] m = "defLate" /\ p = "assert"       -> <<I("def", "X", "", <<"x2">>), I("ref", "X", "", NoVal)>>
      [] m = "envCleanup" /\ p = "cleanup"   -> <<I("envSet", "all", "A", <<"ve">>), Probe("pc")>>
      [] m = "cdLate" /\ p = "cleanup"       -> <<I("cd", "tmp", "", NoVal), Probe("pc")>>
      [] m = "timeoutLate" /\ p = "cleanup"  -> <<I("timeout", "0", "", NoVal)>>
      [] m = "cdGone" /\ p = "cleanup"       -> <<I("rmcwd", "", "", NoVal)>>
      [] OTHER                               -> <<>>

\* The document of a case of kind <<m, e>>: it observes (p0), changes a setting, observes again (p1), runs an action
\* to check that observes, and ends as e says.  After "timeout = 0" no further OS process is started except the
\* long sleeper (how a short process fares under a timeout of 0 seconds is a race).
KindDoc(k) ==
    LET m == k[1]
        e == k[2]
    IN [p \in PhaseNames |->
          CASE p = "conf"   -> (CASE m = "statusFail" -> <<I("status", "FAIL", "", NoVal)>>
                                  [] m = "statusSkip" -> <<I("status", "SKIP", "", NoVal)>>
                                  [] m = "actorNull"  -> <<I("actor", "null", "", NoVal)>>
                                  [] m = "homeConf"   -> <<I("home", "alt", "", NoVal)>>
                                  [] OTHER            -> <<>>)
            [] p = "setup"  -> <<Probe("p0")>> \o MutInstrs(m)
                                 \o (IF m = "timeout" THEN <<>> ELSE <<Probe("p1")>>)
                                 \o (IF e = "hard" THEN <<I("hard", "", "", NoVal)>> ELSE <<>>)
            [] p = "act"    -> IF e = "acthard" THEN <<I("actbad", "", "", NoVal)>>
                               ELSE <<I("actline", "sym", "", NoVal)>>
            [] p = "assert" -> (IF m = "inclShared" THEN From("incl", <<Probe("pi")>>) ELSE <<>>)
                               \o LateInstrs(m, p) \o (IF e = "fail" THEN <<I("fail", "", "", NoVal)>> ELSE <<>>)
            [] p = "cleanup" -> LateInstrs(m, p) \o (IF e = "cleanuphard" THEN <<I("hard", "", "", NoVal)>> ELSE <<>>)
            [] OTHER        -> LateInstrs(m, p)]

KindsOf(ms) == (ms \X {"pass"}) \cup ((ms \cap CoreMuts) \X Ends)
\* histories: the first case of any kind, the later ones of the later kinds; and longer ones over the core
HistSeqs == UNION {{h \in [1..n -> KindsOf(Muts)] : \A j \in 2..n : h[j] \in KindsOf(LaterMuts)} : n \in 1..LenAll}
            \cup UNION {[1..n -> CoreMuts \X {"pass"}] : n \in 1..LenCore}

\* ---- family merge: probes everywhere ---------------------------------------------------------
\* The contents a file supplies in the phases S.  [conf] of a suite: actor = source interpreter, status = FAIL (and
\* the preprocessor, below); [conf] of a case: status = PASS.
ProbeDoc(org, S) ==
    [p \in PhaseNames |->
       IF p \notin S THEN <<>>
       ELSE CASE p = "conf" -> (IF org = "case" THEN From(org, <<I("status", "PASS", "", NoVal)>>)
                                ELSE From(org, <<I("actor", "source", "", NoVal), I("status", "FAIL", "", NoVal)>>))
              [] p = "act"  -> From(org, <<I("actline", "plain", "", NoVal)>>)
              [] OTHER      -> From(org, <<Probe("m")>>)]
AllPhases == PhaseNames
MergeInputs ==
    {[s0 |-> s0, s1 |-> AllPhases \ s0, cs |-> cs] :
        <<s0, cs>> \in {<<a, b>> \in (SUBSET AllPhases) \X (SUBSET AllPhases) :
                           \/ MergeCaseSets = "all"
                           \/ MergeCaseSets = "corners" /\ b \in {{}, AllPhases, a, AllPhases \ a}
                           \/ MergeCaseSets = "two" /\ b \in {AllPhases, AllPhases \ a}}}

\* ---- family sds: values that depend on the sandbox, in instructions of the suite ---------------
\* kinds that record a value (in [setup], "cleanup" in [cleanup], "ba" in [before-assert]), kinds that assert, and
\* kinds that act on a path inside the sandbox (a directory and a copied file in tmp/, cd to act/ - where it is)
SdsOrder == <<"arg", "argTmp", "shell", "defStr", "defPath", "defCd", "file", "fileHere", "env", "program",
              "ba", "cleanup", "equals", "matches", "exists", "dirContents", "stdoutFrom", "mkDir", "copy", "cdAct">>
AllSdsAssert == {"equals", "matches", "exists", "dirContents", "stdoutFrom"}
AllSdsDo == {"mkDir", "copy", "cdAct"}
AllSdsLog == {SdsOrder[j] : j \in DOMAIN SdsOrder} \ (AllSdsAssert \cup AllSdsDo)
DoInstr(k) == CASE k = "mkDir" -> I("dir", "tmp", "kdir", NoVal)
                [] k = "copy"  -> I("copy", "tmp", "copied.txt", NoVal)
                [] OTHER       -> I("cd", "act", "", NoVal)
ASSUME SdsKinds \subseteq AllSdsLog \cup AllSdsAssert \cup AllSdsDo
\* where the value points to, relative to the root of the sandbox
Rem(k) == CASE k \in {"argTmp"}                     -> <<"tmp", "x">>
            [] k \in {"defStr", "fileHere", "cleanup"} -> <<"tmp">>
            [] k \in {"defPath", "defCd"}             -> <<"act", "k">>
            [] OTHER                                  -> <<"act">>
SdsDoc(ks) ==
    LET pick(S) == SelectSeq(SdsOrder, LAMBDA k : k \in S \cap ks)
        logs(S) == [j \in DOMAIN pick(S) |-> I("sdsLog", pick(S)[j], "", NoVal)]
        asserts == [j \in DOMAIN pick(AllSdsAssert) |-> I("sdsAssert", pick(AllSdsAssert)[j], "", NoVal)]
        does == [j \in DOMAIN pick(AllSdsDo) |-> DoInstr(pick(AllSdsDo)[j])]
        prep == (IF ks \cap {"equals", "matches"} # {} THEN <<I("pwdfile", "", "", NoVal)>> ELSE <<>>)
                \o (IF "exists" \in ks THEN <<I("file", "act", "kf.txt", NoVal)>> ELSE <<>>)
                \o (IF "dirContents" \in ks THEN <<I("file", "tmp", "kd.txt", NoVal)>> ELSE <<>>)
    IN DocFrom("suite",
               [p \in PhaseNames |->
                  CASE p = "setup"         -> logs(AllSdsLog \ {"ba", "cleanup"}) \o prep \o does
                    [] p = "before-assert" -> logs({"ba"})
                    [] p = "assert"        -> asserts
                    [] p = "cleanup"       -> logs({"cleanup"})
                    [] OTHER               -> <<>>])
SdsInputs == {[sk |-> ks, n |-> n] : ks \in {{k} : k \in SdsKinds} \cup {SdsKinds}, n \in SdsCases}

\* ---- family sym: values that depend on symbols the cases define, in instructions of the suite -----
\* kinds that record the value (in [before-assert], "cleanupArg" in [cleanup]), the kind that sets the timeout from
\* it (followed by an OS process that takes time), and kinds that assert ([assert])
SymOrder == <<"strArg", "listArg", "listDef", "shellStr", "envStr", "fileStr", "progSym", "timeoutInt", "cleanupArg",
              "exitCode", "numLines", "lineNum", "lineNums", "equalsStr", "matchesRx", "pathExists", "textMatcher",
              "textTransformer", "intMatcher", "lineMatcher",
              "textMatcherAnd", "intMatcherOr", "lineMatcherAnd", "textTransformerSeq",
              "defStr", "hereDoc", "replaceStr", "runArg", "fileMatcher", "filesMatcher", "pathRelDef", "pathRelDef2", "fileDestSym">>
\* ("fileDestSym": the suite creates a file whose destination is relative to a path symbol of the case)
\* ("pathRelDef": a PATH defined by the suite relative to a path symbol of the case (-rel SYMBOL), "pathRelDef2":
\*  through one more definition of the suite)
\* (the last four: the case's matcher / transformer as an OPERAND of && / || / | in the suite's instruction)
\* ("listDef": a LIST defined by an instruction of the suite from a string symbol of the case, then used)
AllSymLog == {"strArg", "listArg", "listDef", "shellStr", "envStr", "fileStr", "progSym", "cleanupArg",
              "defStr", "hereDoc", "replaceStr", "runArg"}
\* ("defStr": a STRING defined by the suite from the case's; "hereDoc": a file written from a here-document that
\*  refers to it; "replaceStr": it is the replacement of a `replace`; "runArg": an argument of `run`)
AllSymAssert == {"exitCode", "numLines", "lineNum", "lineNums", "equalsStr", "matchesRx", "pathExists", "textMatcher",
                 "textTransformer", "intMatcher", "lineMatcher",
                 "textMatcherAnd", "intMatcherOr", "lineMatcherAnd", "textTransformerSeq", "fileMatcher", "filesMatcher",
                 "pathRelDef", "pathRelDef2", "fileDestSym"}
AllSymKinds == {SymOrder[j] : j \in DOMAIN SymOrder}
\* "vbad": values of which the INTEGER and the REGEX are ill-formed (the others are values like any other): a case
\* that gives them to an instruction of the suite that needs an INTEGER / a REGEX ends in VALIDATION_ERROR before
\* anything is executed - whatever the cases before it gave to the same instruction
\* "vnone": the case does not define the symbols at all;  "vtype": it defines every one of them with a type that the
\* references of the suite do not accept.  Both end in VALIDATION_ERROR before anything is executed - whatever
\* the cases before them defined for the same instructions
ASSUME SymKinds \subseteq AllSymKinds /\ SymVals \subseteq {"v1", "v2", "v3", "vbad", "vnone", "vtype"}
InvalidFor == {"exitCode", "numLines", "lineNum", "lineNums", "timeoutInt", "matchesRx"}
OwnFile(v) == CASE v = "v1" -> "own1.txt" [] v = "v2" -> "own2.txt" [] v = "v3" -> "own3.txt" [] v = "vtype" -> "own6.txt"
                [] OTHER -> "own4.txt"
\* ... and a directory of its own (the root of the path symbol V_D)
OwnDir(v) == CASE v = "v1" -> "d1" [] v = "v2" -> "d2" [] v = "v3" -> "d3" [] v = "vtype" -> "d6" [] OTHER -> "d4"
SymDoc(ks) ==
    LET pick(S) == SelectSeq(SymOrder, LAMBDA k : k \in S \cap ks)
        logs(S) == [j \in DOMAIN pick(S) |-> I("symLog", pick(S)[j], "", NoVal)]
        asserts == [j \in DOMAIN pick(AllSymAssert) |-> I("symAssert", pick(AllSymAssert)[j], "", NoVal)]
        tmo == IF "timeoutInt" \in ks THEN <<I("symTimeout", "timeoutInt", "", NoVal), I("sleep", "mid", "", NoVal)>>
               ELSE <<>>
    IN DocFrom("suite",
               [p \in PhaseNames |->
                  CASE p = "before-assert" -> logs(AllSymLog \ {"cleanupArg"}) \o tmo
                    [] p = "assert"        -> asserts
                    [] p = "cleanup"       -> logs({"cleanupArg"})
                    [] OTHER               -> <<>>])
\* a case of the sym family: observes, defines its symbols, observes; its action to check behaves as its value says
SymCaseDoc(v) == [p \in PhaseNames |->
                    CASE p = "setup" -> IF v = "vnone" THEN <<Probe("p0"), Probe("p1")>>
                                        ELSE <<Probe("p0"), I("defOwn", "", "", <<v>>), Probe("p1")>>
                      [] p = "act"   -> <<I("actown", "", "", <<v>>)>>
                      [] OTHER       -> <<>>]
\* each kind alone and all together (the timeout kind only alone: after "timeout = 0" no further OS process);
\* the cases: every sequence of values that are not all the same
SymInputs == {[sk |-> ks, vs |-> vs] :
                 ks \in {{k} : k \in SymKinds} \cup {SymKinds \ {"timeoutInt"}},
                 vs \in UNION {{s \in [1..n -> SymVals] : \E a, b \in 1..n : s[a] # s[b]} : n \in 2..SymLen}}

\* ---- inputs and the file tree they stand for ---------------------------------------------------
\* family "file": histories read from a file (seeded random ones beyond the exhaustive bounds)
FileHists == IF "file" \in Families
             THEN LET recs == ndJsonDeserialize(IOEnv.SUITECASES_INPUTS)
                  IN {[j \in DOMAIN r.h |-> <<r.h[j][1], r.h[j][2]>>] : r \in {recs[i] : i \in DOMAIN recs}}
             ELSE {}
Blank == [fam |-> "", h |-> <<>>, s0 |-> {}, s1 |-> {}, cs |-> {}, sk |-> {}, n |-> 0, vs |-> <<>>]
Inputs == (IF "hist" \in Families THEN {[Blank EXCEPT !.fam = "hist", !.h = h] : h \in HistSeqs} ELSE {})
          \cup {[Blank EXCEPT !.fam = "hist", !.h = h] : h \in FileHists}
          \cup (IF "merge" \in Families
                THEN {[Blank EXCEPT !.fam = "merge", !.s0 = m.s0, !.s1 = m.s1, !.cs = m.cs] : m \in MergeInputs}
                ELSE {})
          \cup (IF "sds" \in Families THEN {[Blank EXCEPT !.fam = "sds", !.sk = s.sk, !.n = s.n] : s \in SdsInputs}
                ELSE {})
          \cup (IF "sym" \in Families
                THEN {[Blank EXCEPT !.fam = "sym", !.sk = s.sk, !.vs = s.vs, !.n = Len(s.vs)] : s \in {y \in SymInputs : y.sk # {}}}
                ELSE {})

\* suite files: 0 = the root, 1 = the sub-suite (family merge only); case files 1..NCases(x)
NCases(x) == CASE x.fam = "hist" -> Len(x.h) [] x.fam = "merge" -> 2 [] OTHER -> x.n
HasSub(x) == x.fam = "merge"
HomeOf(x, c) == IF x.fam = "merge" /\ c = 2 THEN 1 ELSE 0          \* the suite that lists case c
OwnDoc(x, c) == CASE x.fam = "hist"  -> KindDoc(x.h[c])
                  [] x.fam = "merge" -> ProbeDoc("case", x.cs)
                  [] x.fam = "sym"   -> SymCaseDoc(x.vs[c])
                  [] OTHER           -> KindDoc(<<"none", "pass">>)
SuiteDoc(x, u) == CASE x.fam = "merge" -> (IF u = 0 THEN ProbeDoc("suite", x.s0) ELSE ProbeDoc("sub", x.s1))
                    [] x.fam = "sds"   -> SdsDoc(x.sk)
                    [] x.fam = "sym"   -> SymDoc(x.sk)
                    \* family hist: when the first case changes the configuration in its [conf], the suite has a [conf] of
                    \* its own with a test-case instruction that names the default (actor = command line): the [conf]
                    \* of a case is merged with a COPY of what the suite supplies
                    [] x.fam = "hist" /\ x.h # <<>> /\ x.h[1][1] \in {"statusFail", "statusSkip", "actorNull", "homeConf"}
                                       -> DocFrom("suite", [EmptyDoc EXCEPT !["conf"] = <<I("actor", "command", "", NoVal)>>])
                    [] OTHER           -> EmptyDoc
\* [conf] sets a preprocessor: family merge when the suite has a [conf]; family sym always (SEVERAL cases of one suite
\* go through the same preprocessor, each with its own file)
SuitePre(x, u) == \/ x.fam = "merge" /\ "conf" \in (IF u = 0 THEN x.s0 ELSE x.s1)
                  \/ x.fam = "sym"
CasesOf(x, u) == IF x.fam = "merge" THEN (IF u = 0 THEN <<1>> ELSE <<2>>)
                 ELSE [j \in 1..NCases(x) |-> j]
\* the invocations explored for an input: <<way, case (0: all of them)>>
RunsOf(x) ==
    CASE x.fam = "hist"  -> {<<"suite", 0>>} \cup (IF Len(x.h) = 1 THEN {"plain", "option", "beside"} \X {1} ELSE {})
      [] x.fam = "merge" -> (Ways \cap {"suite"}) \X {0} \cup (Ways \cap {"option", "beside"}) \X {1, 2}
      [] x.fam = "sym"   -> {<<"suite", 0>>, <<"plain", 1>>} \cup {"option", "beside"} \X (1..x.n)
      [] OTHER           -> {<<"suite", 0>>, <<"option", x.n>>}

\* ---- the state of the process and the settings of a case ---------------------------------------
P0 == [env |-> [n \in EnvNames |-> IF n = "B" THEN <<"b0">> ELSE NoVal],
       cwd |-> "home", timeout |-> "60", syms |-> [n \in SymNames |-> NoVal]]
\* the settings of case c at the start of [setup]: copies of the process state, a fresh sandbox (named c)
Fresh(p, c) == [envAct |-> p.env, envNon |-> p.env, cwd |-> "act", timeout |-> p.timeout, syms |-> p.syms,
                files |-> {}, stdin |-> NoVal, sid |-> c]
InScope(scope, which) == scope = "all" \/ scope = which
SetEnv(L, scope, n, f(_)) ==
    [L EXCEPT !.envAct = IF InScope(scope, "act") THEN [@ EXCEPT ![n] = f(@)] ELSE @,
              !.envNon = IF InScope(scope, "non") THEN [@ EXCEPT ![n] = f(@)] ELSE @]

\* what an OS process started by instruction i of case c in phase ph records
Rec(kind, i, L, c, ph, pp, x, sds, rem) ==
    LET e == IF ph = "act" THEN L.envAct ELSE L.envNon
    IN [k |-> kind, c |-> c, own |-> IF i.org = "case" THEN c ELSE 0, org |-> i.org, ph |-> ph, tag |-> i.a,
        pp |-> IF i.org = "case" /\ pp THEN "y" ELSE "n",
        cwd |-> L.cwd, A |-> e["A"], B |-> e["B"], files |-> L.files,
        stdin |-> IF ph = "act" THEN L.stdin ELSE NoVal, x |-> x, sds |-> sds, rem |-> rem]

\* One instruction step.  cached / cval: the sandbox / the symbol value a shared instruction object remembers
\* (0 / NoVal: none; only with a deviation).  Result: new settings, outcome, records.
Step(i, L, c, ph, pp, cached, cval) ==
    LET ok(L2, recs) == [L |-> L2, out |-> "ok", recs |-> recs]
        proc(L2, recs) == IF L.timeout = "0" THEN [L |-> L2, out |-> "hard", recs |-> <<>>] ELSE ok(L2, recs)
        sid == IF cached # 0 THEN cached ELSE L.sid
        val == IF cval # NoVal THEN cval ELSE L.syms["V"]
    IN CASE i.op = "probe"     -> proc(L, <<Rec("probe", i, L, c, ph, pp, NoVal, L.sid, NoVal)>>)
         [] i.op = "envSet"    -> ok(SetEnv(L, i.a, i.b, LAMBDA old : i.c), <<>>)
         [] i.op = "envApp"    -> ok(SetEnv(L, i.a, i.b, LAMBDA old : old \o i.c), <<>>)
         [] i.op = "envUnset"  -> ok(SetEnv(L, i.a, i.b, LAMBDA old : NoVal), <<>>)
         [] i.op = "cd"        -> ok([L EXCEPT !.cwd = CASE i.a = "tmp" -> "tmp" [] i.a = "up" -> "root"
                                                         [] i.a = "act" -> "act" [] OTHER -> "act/sub"], <<>>)
         [] i.op = "dir"       -> ok([L EXCEPT !.files = @ \cup {<<i.a, i.b>>}], <<>>)
         [] i.op = "file"      -> ok([L EXCEPT !.files = @ \cup {<<i.a, i.b>>}], <<>>)
         [] i.op = "copy"      -> ok([L EXCEPT !.files = @ \cup {<<i.a, i.b>>}], <<>>)
         [] i.op = "pwdfile"   -> proc([L EXCEPT !.files = @ \cup {<<"tmp", "pwd.txt">>}], <<>>)
         [] i.op = "timeout"   -> ok([L EXCEPT !.timeout = i.a], <<>>)
         [] i.op = "sleep"     -> proc(L, <<>>)
         [] i.op = "def"       -> ok([L EXCEPT !.syms[i.a] = i.c], <<>>)
         [] i.op = "ref"       -> proc(L, <<Rec("ref", i, L, c, ph, pp, L.syms[i.a], L.sid, NoVal)>>)
         [] i.op = "stdin"     -> ok([L EXCEPT !.stdin = i.c], <<>>)
         [] i.op = "fail"      -> [L |-> L, out |-> "fail", recs |-> <<>>]
         [] i.op = "hard"      -> [L |-> L, out |-> "hard", recs |-> <<>>]
         [] i.op = "sdsLog"    -> proc(CASE i.a = "file"     -> [L EXCEPT !.files = @ \cup {<<"tmp", "k.txt">>}]
                                          [] i.a = "fileHere" -> [L EXCEPT !.files = @ \cup {<<"tmp", "h.txt">>}]
                                          [] OTHER            -> L,
                                        <<Rec("sds", i, L, c, ph, pp, NoVal, sid, Rem(i.a))>>)
         [] i.op = "sdsAssert" -> IF sid = L.sid THEN proc(L, <<>>) ELSE [L |-> L, out |-> "fail", recs |-> <<>>]
         [] i.op = "defOwn"    -> ok([L EXCEPT !.syms["V"] = i.c,
                                                !.files = @ \cup {<<"tmp", "own.txt">>, <<"tmp", OwnFile(i.c[1])>>,
                                                                   <<"tmp", OwnDir(i.c[1])>>}], <<>>)
         [] i.op = "symLog"    -> proc(IF i.a = "fileStr" THEN [L EXCEPT !.files = @ \cup {<<"tmp", "ks.txt">>}] ELSE L,
                                       <<Rec("sym", i, L, c, ph, pp, val, L.sid, NoVal)>>)
         [] i.op = "symAssert" -> IF val = L.syms["V"] THEN ok(L, <<>>) ELSE [L |-> L, out |-> "fail", recs |-> <<>>]
         [] i.op = "symTimeout" -> ok([L EXCEPT !.timeout = IF val = <<"v1">> THEN "0" ELSE "60"], <<>>)
         [] OTHER              -> ok(L, <<>>)
\* a line of [act] executed by the action to check
ActStep(i, L, c, pp) == IF L.timeout = "0" \/ i.op = "actbad" THEN [L |-> L, out |-> "hard", recs |-> <<>>]
                        ELSE IF i.op = "actown" THEN [L |-> L, out |-> "ok", recs |-> <<>>]
                        ELSE [L |-> L, out |-> "ok", recs |-> <<Rec("probe", i, L, c, "act", pp, NoVal, L.sid, NoVal)>>]

\* ---- [conf], [act] syntax, symbol validation ---------------------------------------------------
RECURSIVE ConfOf(_, _)
ConfOf(q, cf) == IF q = <<>> THEN cf
                 ELSE ConfOf(Tail(q), CASE Head(q).op = "status" -> [cf EXCEPT !.status = Head(q).a]
                                        [] Head(q).op = "actor"  -> [cf EXCEPT !.actor = Head(q).a]
                                        [] OTHER                 -> cf)
Conf0 == [status |-> "PASS", actor |-> "command"]
\* every line of an instruction phase is an instruction
SyntaxOK(doc) == \A p \in PhaseNames : \A j \in DOMAIN doc[p] : doc[p][j].op # "bad"
\* the command line actor takes a single command line
ActSyntaxOK(doc, actor) == ~(actor = "command" /\ Len(doc["act"]) > 1)
\* the lines the action to check executes ("If the act phase is not specified, or empty, the null actor is used")
ActLines(doc, actor) == IF actor = "null" THEN <<>> ELSE doc["act"]
Instrs(doc) == Flat([j \in DOMAIN InstrPhases |-> doc[InstrPhases[j]]])
RECURSIVE SymsOK(_, _)
SymsOK(q, defined) ==
    IF q = <<>> THEN TRUE
    ELSE CASE Head(q).op = "def" -> Head(q).a \notin defined /\ SymsOK(Tail(q), defined \cup {Head(q).a})
           [] Head(q).op = "ref" -> Head(q).a \in defined /\ SymsOK(Tail(q), defined)
           [] Head(q).op = "defOwn" -> "V" \notin defined /\ SymsOK(Tail(q), defined \cup {"V"})
           [] Head(q).op \in {"symLog", "symAssert", "symTimeout"} -> "V" \in defined /\ SymsOK(Tail(q), defined)
           [] OTHER              -> SymsOK(Tail(q), defined)
Defined(syms) == {n \in SymNames : syms[n] # NoVal}
\* values are validated before anything executes: the values the case ITSELF defines
OwnVal(q) == IF \E j \in DOMAIN q : q[j].op = "defOwn" THEN q[CHOOSE j \in DOMAIN q : q[j].op = "defOwn"].c ELSE NoVal
NeedsWellFormed(q) == \E j \in DOMAIN q : q[j].op \in {"symLog", "symAssert", "symTimeout"} /\ q[j].a \in InvalidFor
ValuesOK(q) == ~(OwnVal(q) = <<"vbad">> /\ NeedsWellFormed(q))
\* the type of a symbol is part of what a reference to it requires
TypesOK(q) == ~(OwnVal(q) = <<"vtype">> /\ \E j \in DOMAIN q : q[j].op \in {"symLog", "symAssert", "symTimeout"})
RefsOK(q, defined) == SymsOK(q, defined) /\ TypesOK(q)
Ident(status, out) == CASE out = "hard" -> "HARD_ERROR"
                        [] out = "fail" -> (IF status = "FAIL" THEN "XFAIL" ELSE "FAIL")
                        [] OTHER        -> (IF status = "FAIL" THEN "XPASS" ELSE "PASS")

\* ---- the declarative reading ---------------------------------------------------------------------
\* THE CLAUSE about suite contents: in every phase the contents of the suite come first, in [cleanup] last.
Merge(suite, case) == [p \in PhaseNames |-> IF p = "cleanup" THEN case[p] \o suite[p] ELSE suite[p] \o case[p]]

RECURSIVE RunInstrs(_, _, _, _, _)
RunInstrs(q, st, c, ph, pp) ==
    IF q = <<>> \/ st.out # "ok" THEN st
    ELSE LET r == Step(Head(q), st.L, c, ph, pp, 0, NoVal)
         IN RunInstrs(Tail(q), [L |-> r.L, out |-> r.out, log |-> st.log \o r.recs], c, ph, pp)
RECURSIVE RunAct(_, _, _, _)
RunAct(q, st, c, pp) ==
    IF q = <<>> \/ st.out # "ok" THEN st
    ELSE LET r == ActStep(Head(q), st.L, c, pp)
         IN RunAct(Tail(q), [L |-> r.L, out |-> r.out, log |-> st.log \o r.recs], c, pp)
\* What case c does, executed ALONE in a fresh process: identifier and records.
Alone(doc, c, pp) ==
    LET cf == ConfOf(doc["conf"], Conf0)
    IN IF ~SyntaxOK(doc) THEN [id |-> "SYNTAX_ERROR", log |-> <<>>]
       ELSE IF cf.status = "SKIP" THEN [id |-> "SKIPPED", log |-> <<>>]
       ELSE IF ~ActSyntaxOK(doc, cf.actor) THEN [id |-> "SYNTAX_ERROR", log |-> <<>>]
       ELSE IF ~RefsOK(Instrs(doc), Defined(P0.syms)) THEN [id |-> "VALIDATION_ERROR", log |-> <<>>]
       ELSE IF ~ValuesOK(Instrs(doc)) THEN [id |-> "VALIDATION_ERROR", log |-> <<>>]
       ELSE LET t0 == [L |-> Fresh(P0, c), out |-> "ok", log |-> <<>>]
                t1 == RunInstrs(doc["setup"], t0, c, "setup", pp)
                t2 == RunAct(ActLines(doc, cf.actor), t1, c, pp)
                t3 == RunInstrs(doc["before-assert"], t2, c, "before-assert", pp)
                t4 == RunInstrs(doc["assert"], t3, c, "assert", pp)
                t5 == RunInstrs(doc["cleanup"], [t4 EXCEPT !.out = "ok"], c, "cleanup", pp)
            IN [id |-> Ident(cf.status, IF t4.out # "ok" THEN t4.out ELSE t5.out), log |-> t5.log]
\* what the property says about case c of input x: its own contents merged with those of the suite that lists it
Declared(x, c) == Alone(Merge(SuiteDoc(x, HomeOf(x, c)), OwnDoc(x, c)), c, SuitePre(x, HomeOf(x, c)))

\* ---- the machine -----------------------------------------------------------------------------------
VARIABLES inp,     \* the input
          way, tgt,\* the invocation
          pc,      \* "start", then per case "access" "conf" "parse-act" "validate" "sandbox" "exec" "end", finally "done"
          contrib, \* per suite file: what it contributes to its cases: [doc, pre]
          queue,   \* the cases still to be processed: <<case, suite whose contribution applies or -1>>
          cur,     \* the running case
          P,       \* the state of the process
          log,     \* the records written so far
          idents,  \* <<case, identifier>> of the cases processed so far
          cache    \* per kind: the case whose sandbox / symbol values a shared instruction object of the suite
                   \* remembers (0: none)
vars == <<inp, way, tgt, pc, contrib, queue, cur, P, log, idents, cache>>

None == 9          \* "no suite applies"
NoCase == [c |-> 0, u |-> None, doc |-> EmptyDoc, pp |-> FALSE, status |-> "PASS", actor |-> "command",
           phx |-> 1, ix |-> 1, L |-> Fresh(P0, 0), out |-> "ok", first |-> "ok"]

Init == /\ inp \in Inputs
        /\ \E r \in RunsOf(inp) : way = r[1] /\ tgt = r[2]
        /\ pc = "start"
        /\ contrib = <<>>
        /\ queue = <<>>
        /\ cur = NoCase
        /\ P = P0
        /\ log = <<>>
        /\ idents = <<>>
        /\ cache = [k \in AllSdsLog \cup AllSdsAssert \cup AllSdsDo \cup AllSymKinds |-> 0]

\* Reading: what every suite file contributes to the cases it lists - its own contents, nothing of its parent -
\* and which cases are processed in which order (sub-suites first).
Resolve ==
    /\ pc = "start"
    /\ LET own(u) == [doc |-> SuiteDoc(inp, u), pre |-> SuitePre(inp, u)]
           rootC == own(0)
           subC == IF Dev("Inherited")
                   THEN [doc |-> [p \in PhaseNames |-> IF p = "cleanup" THEN own(1).doc[p] \o rootC.doc[p]
                                                       ELSE rootC.doc[p] \o own(1).doc[p]],
                         pre |-> rootC.pre \/ own(1).pre]
                   ELSE own(1)
           listed(u) == [j \in DOMAIN CasesOf(inp, u) |-> <<CasesOf(inp, u)[j], u>>]
           used == CASE way = "plain"                           -> None
                     [] way = "option" /\ Dev("OptionIgnored")  -> None
                     [] way = "beside" /\ Dev("BesideIgnored")  -> None
                     [] OTHER                                   -> HomeOf(inp, tgt)
       IN /\ contrib' = <<rootC, subC>>
          /\ queue' = IF way = "suite" THEN (IF HasSub(inp) THEN listed(1) ELSE <<>>) \o listed(0)
                      ELSE <<<<tgt, used>>>>
    /\ pc' = "next"
    /\ UNCHANGED <<inp, way, tgt, cur, P, log, idents, cache>>

BeginCase ==
    /\ pc = "next" /\ queue # <<>>
    /\ cur' = [NoCase EXCEPT !.c = Head(queue)[1], !.u = Head(queue)[2]]
    /\ queue' = Tail(queue)
    /\ pc' = "access"
    /\ UNCHANGED <<inp, way, tgt, contrib, P, log, idents, cache>>

\* Access: read the case file, preprocess it, parse it, and let the transformer of the handling setup add the
\* contents of the suite.
Finished(id) == /\ idents' = Append(idents, <<cur.c, id>>)
                /\ pc' = "next"

AccessCase ==
    /\ pc = "access"
    /\ LET sc == IF cur.u = None THEN [doc |-> EmptyDoc, pre |-> FALSE] ELSE contrib[cur.u + 1]
           own == IF Dev("PreprocessorArgsAccumulate") /\ sc.pre /\ idents # <<>>
                  THEN OwnDoc(inp, idents[1][1])      \* the preprocessor is still given the file of the first case
                  ELSE OwnDoc(inp, cur.c)
           merged == IF Dev("SuiteContentsAfter")
                     THEN [p \in PhaseNames |-> IF p = "cleanup" THEN sc.doc[p] \o own[p] ELSE own[p] \o sc.doc[p]]
                     ELSE [p \in PhaseNames |-> IF p = "cleanup" THEN own[p] \o sc.doc[p] ELSE sc.doc[p] \o own[p]]
       IN /\ cur' = [cur EXCEPT !.doc = merged, !.pp = sc.pre]
          /\ IF SyntaxOK(merged) THEN pc' = "conf" /\ UNCHANGED idents ELSE Finished("SYNTAX_ERROR")
    /\ UNCHANGED <<inp, way, tgt, contrib, queue, P, log, cache>>

ConfPhase ==
    /\ pc = "conf"
    /\ LET cf == ConfOf(cur.doc["conf"], Conf0)
       IN /\ cur' = [cur EXCEPT !.status = cf.status, !.actor = cf.actor]
          /\ IF cf.status = "SKIP" THEN Finished("SKIPPED") ELSE pc' = "parse-act" /\ UNCHANGED idents
    /\ UNCHANGED <<inp, way, tgt, contrib, queue, P, log, cache>>

ParseAct ==
    /\ pc = "parse-act"
    /\ IF ActSyntaxOK(cur.doc, cur.actor) THEN pc' = "validate" /\ UNCHANGED idents ELSE Finished("SYNTAX_ERROR")
    /\ UNCHANGED <<inp, way, tgt, contrib, queue, cur, P, log, cache>>

\* the predefined symbols the validation starts from are those of the process
ValidateSymbols ==
    /\ pc = "validate"
    /\ IF /\ \/ RefsOK(Instrs(cur.doc), Defined(P.syms))
             \* deviation: the instructions of the suite report their references once - to the first case
             \/ Dev("ReferencesValidatedOnce") /\ idents # <<>> /\ SymsOK(cur.doc["setup"], Defined(P.syms))
          /\ \/ ValuesOK(Instrs(cur.doc))
             \* deviation: the shared instruction object remembers that its value was well-formed in an earlier case
             \/ Dev("ValidatedValueCached") /\ \E j \in DOMAIN idents : idents[j][2] # "VALIDATION_ERROR"
       THEN pc' = "sandbox" /\ UNCHANGED idents
       ELSE Finished("VALIDATION_ERROR")
    /\ UNCHANGED <<inp, way, tgt, contrib, queue, cur, P, log, cache>>

\* a new sandbox; the settings of the case are copies of the state of the process; the process enters the sandbox
CreateSandbox ==
    /\ pc = "sandbox"
    /\ cur' = [cur EXCEPT !.L = Fresh(P, cur.c), !.phx = 1, !.ix = 1, !.out = "ok", !.first = "ok"]
    /\ P' = [P EXCEPT !.cwd = "sandbox"]
    /\ pc' = "exec"
    /\ UNCHANGED <<inp, way, tgt, contrib, queue, log, idents, cache>>

Phase == ExecOrder[cur.phx]
PhaseSeq == IF Phase = "act" THEN ActLines(cur.doc, cur.actor) ELSE cur.doc[Phase]
\* what a deviating program writes through to the state of the process
WriteThrough(i, L2) ==
    CASE Dev("EnvNotCopied") /\ i.op \in {"envSet", "envApp", "envUnset"}
             -> [P EXCEPT !.env[i.b] = IF InScope(i.a, "non") THEN L2.envNon[i.b] ELSE L2.envAct[i.b]]
      [] Dev("ConfShared") /\ i.op = "timeout" -> [P EXCEPT !.timeout = i.a]
      [] Dev("ConfShared") /\ i.op = "def"     -> [P EXCEPT !.syms[i.a] = i.c]
      [] OTHER -> P

ExecInstr ==
    /\ pc = "exec" /\ Phase # "act"
    /\ cur.out = "ok" /\ cur.ix <= Len(PhaseSeq)
    /\ LET i == PhaseSeq[cur.ix]
           sdsShared == i.org # "case" /\ i.op \in {"sdsLog", "sdsAssert"} /\ Dev("SandboxValueCached")
           symShared == /\ i.org # "case" /\ i.op \in {"symLog", "symAssert", "symTimeout"}
                        /\ Dev("SymbolValueCached") \/ (Dev("LineNumsRangeCached") /\ i.a = "lineNums")
           shared == sdsShared \/ symShared
           r == Step(i, cur.L, cur.c, Phase, cur.pp, IF sdsShared THEN cache[i.a] ELSE 0,
                     IF symShared /\ cache[i.a] # 0 THEN <<inp.vs[cache[i.a]]>> ELSE NoVal)
       IN /\ cur' = [cur EXCEPT !.L = r.L, !.out = r.out, !.ix = @ + 1]
          /\ log' = log \o r.recs
          /\ P' = WriteThrough(i, r.L)
          /\ cache' = IF shared /\ cache[i.a] = 0 THEN [cache EXCEPT ![i.a] = cur.c] ELSE cache
    /\ UNCHANGED <<inp, way, tgt, pc, contrib, queue, idents>>
SetupInstr == pc = "exec" /\ Phase = "setup" /\ ExecInstr
BeforeAssertInstr == pc = "exec" /\ Phase = "before-assert" /\ ExecInstr
AssertInstr == pc = "exec" /\ Phase = "assert" /\ ExecInstr
CleanupInstr == pc = "exec" /\ Phase = "cleanup" /\ ExecInstr

ActExecute ==
    /\ pc = "exec" /\ Phase = "act"
    /\ cur.out = "ok" /\ cur.ix <= Len(PhaseSeq)
    /\ LET r == ActStep(PhaseSeq[cur.ix], cur.L, cur.c, cur.pp)
       IN /\ cur' = [cur EXCEPT !.L = r.L, !.out = r.out, !.ix = @ + 1]
          /\ log' = log \o r.recs
    /\ UNCHANGED <<inp, way, tgt, pc, contrib, queue, P, idents, cache>>

\* end of a phase, or a failure in it: the next phase, or [cleanup] directly
NextPhase ==
    /\ pc = "exec"
    /\ cur.out # "ok" \/ cur.ix > Len(PhaseSeq)
    /\ IF Phase = "cleanup"
       THEN /\ pc' = "end"
            /\ cur' = [cur EXCEPT !.first = IF @ # "ok" THEN @ ELSE cur.out]
       ELSE /\ pc' = "exec"
            /\ cur' = [cur EXCEPT !.phx = IF cur.out # "ok" THEN Len(ExecOrder) ELSE @ + 1, !.ix = 1,
                                  !.out = "ok", !.first = cur.out]
    /\ UNCHANGED <<inp, way, tgt, contrib, queue, P, log, idents, cache>>

\* the sandbox is removed, the current directory of the process restored, the settings of the case dropped
EndCase ==
    /\ pc = "end"
    /\ Finished(Ident(cur.status, cur.first))
    /\ P' = IF Dev("CwdNotRestored") THEN P ELSE [P EXCEPT !.cwd = "home"]
    /\ UNCHANGED <<inp, way, tgt, contrib, queue, cur, log, cache>>

Finish ==
    /\ pc = "next" /\ queue = <<>>
    /\ pc' = "done"
    /\ UNCHANGED <<inp, way, tgt, contrib, queue, cur, P, log, idents, cache>>

Next == \/ Resolve \/ BeginCase \/ AccessCase \/ ConfPhase \/ ParseAct \/ ValidateSymbols \/ CreateSandbox
        \/ SetupInstr \/ ActExecute \/ BeforeAssertInstr \/ AssertInstr \/ CleanupInstr \/ NextPhase
        \/ EndCase \/ Finish
Spec == Init /\ [][Next]_vars

\* ---- the clauses of the property ---------------------------------------------------------------------
Done == pc = "done"
Processed == {idents[j][1] : j \in DOMAIN idents}
IdentOf(c) == LET j == CHOOSE j \in DOMAIN idents : idents[j][1] = c IN idents[j][2]
LogOf(c) == SelectSeq(log, LAMBDA r : r.c = c)
Tags(q) == [j \in DOMAIN q |-> <<q[j].org, q[j].ph>>]

TypeOK == /\ pc \in {"start", "next", "access", "conf", "parse-act", "validate", "sandbox", "exec", "end", "done"}
          /\ way \in {"suite", "option", "beside", "plain"}
          /\ P.cwd \in {"home", "sandbox"} /\ P.timeout \in {"60", "0"}
          /\ \A j \in DOMAIN log : log[j].c \in 1..NCases(inp)
\* no case leaves a trace in the process: between any two cases, and at the end, its state is the initial one
CasePure == pc \in {"next", "done"} => P = P0
\* hence: whatever ran before, a case does what it does alone (family hist: the suite contributes nothing)
OrderIrrelevant == Done /\ inp.fam = "hist"
                   => \A c \in Processed : LET a == Alone(KindDoc(inp.h[c]), c, FALSE)
                                           IN IdentOf(c) = a.id /\ LogOf(c) = a.log
\* every case is processed once, in the order of the listing, sub-suite first
EveryCase == Done => [j \in DOMAIN idents |-> idents[j][1]]
                     = (IF way = "suite" THEN (IF HasSub(inp) THEN CasesOf(inp, 1) ELSE <<>>) \o CasesOf(inp, 0)
                        ELSE <<tgt>>)
\* the order in which the instructions of suite and case execute: what the merged document says
MergeOrder == Done /\ inp.fam = "merge"
              => \A c \in Processed : Tags(LogOf(c)) = Tags(Declared(inp, c).log)
\* nothing of the root suite reaches the case of the sub-suite (nor the other way round)
\* (org "incl": an instruction of a file the case itself includes)
NotInherited == \A j \in DOMAIN log : log[j].org \in {"case", "incl"}
                                      \/ log[j].org = (IF HomeOf(inp, log[j].c) = 0 THEN "suite" ELSE "sub")
\* however the case is run - via the suite, with --suite, beside exactly.suite - it does what the property declares
ThreeWaysAgree == Done /\ way # "plain"
                  => \A c \in Processed : IdentOf(c) = Declared(inp, c).id /\ LogOf(c) = Declared(inp, c).log
\* every value that depends on the sandbox is that of the sandbox of the running case
OwnSandbox == \A j \in DOMAIN log : log[j].sds = log[j].c
\* every value that depends on symbols is computed from the definitions of the running case
OwnSymbols == /\ \A j \in DOMAIN log : log[j].k = "sym" => log[j].x = <<inp.vs[log[j].c]>>
              /\ Done /\ inp.fam = "sym" /\ way # "plain"
                 => \A c \in Processed : IdentOf(c) = Declared(inp, c).id
\* the preprocessor of a suite is applied to the cases it lists, and only to them
Preprocessed == \A j \in DOMAIN log : (log[j].pp = "y") = (log[j].org = "case" /\ way # "plain"
                                                            /\ SuitePre(inp, HomeOf(inp, log[j].c)))
\* well-formedness of the generators: after "timeout = 0" no OS process is started whose fate would be a race -
\* only the long sleeper directly after it (killed at once; the case ends there), or, when the timeout is set in
\* [cleanup], nothing but a helper that fails anyway
ASSUME \A m \in AllMuts, e \in AllEnds :
          LET d == KindDoc(<<m, e>>)
              q == Instrs(d)
          IN \A j \in DOMAIN q :
                q[j].op = "timeout"
                => /\ \A j2 \in (j + 1)..Len(q) : \/ q[j2].op \in {"hard", "fail"}
                                                   \/ (j2 = j + 1 /\ q[j2].op = "sleep" /\ q[j2].a = "long")
                   /\ \/ (j + 1 <= Len(q) /\ q[j + 1].op = "sleep")
                      \/ (\E j3 \in DOMAIN d["cleanup"] : d["cleanup"][j3].op = "timeout")
=============================================================================
