----------------------------- MODULE PhaseExec -----------------------------
(***************************************************************************)
(* The phased executor of Exactly as a step machine.                       *)
(*                                                                         *)
(* One action per linearisation point of the code: one executed            *)
(* instruction step (symbol usages, validate-pre-sds, main,                *)
(* validate-post-setup), one step of the action to check (parse, symbols,  *)
(* validate, exe-input, prepare, execute), creation and removal of the     *)
(* sandbox.  The OUTCOME of every step is an input of the action, so TLC   *)
(* explores every fault sequence of every shape of test case; the trace    *)
(* specification PhaseExecTrace binds the same outcome to the logged one.  *)
(*                                                                         *)
(* Source of the semantics: reference manual ("Processing steps", "Phases",*)
(* "Outcome"); step order confirmed by running stub instructions through   *)
(* exactly_lib.execution.full_execution.execution.execute.                 *)
(***************************************************************************)
EXTENDS ExecSteps, FiniteSets, TLC

CONSTANT MaxN          \* maximal number of instructions per phase

VARIABLES
  n,        \* [Phases -> 0..MaxN]  number of instructions per phase (the shape of the case)
  tcStatus, \* status set in [conf]: PASS / FAIL / SKIP
  mode,     \* normal / keep / act
  k,        \* index into Forward (NF+1: forward sequence complete)
  i,        \* index of the instruction the current step is at (1-based)
  sds,      \* none / live / removed / kept
  cwd,      \* orig / act        (current directory of the Exactly process)
  prev,     \* what the cleanup phase is told ran last
  fail,     \* <<>> or <<step, phase, status>> of the failing forward step
  cfail,    \* <<>> or <<"main", "cleanup", status>> of the failing cleanup instruction
  inCleanup, ci, cleanupEntered,
  mains,    \* number of executed steps that may have side effects (main steps, prepare, execute)
  log,      \* history: <<step, phase, index, outcome>> (cleanup main: a 5th element, the previous phase told)
  done,
  result    \* <<>> or the reported <<step, phase, status>>
vars == <<n, tcStatus, mode, k, i, sds, cwd, prev, fail, cfail, inCleanup, ci, cleanupEntered, mains, log, done, result>>

Count(kk) == IF Forward[kk][2] \in {"act", "-"} THEN 1 ELSE n[Forward[kk][2]]

Init == /\ n \in [Phases -> 0..MaxN]
        /\ tcStatus \in {"PASS", "FAIL", "SKIP"}
        /\ (n["conf"] = 0 => tcStatus = "PASS")     \* the status is set by an instruction of [conf]
        /\ mode \in Modes
        /\ k = 1 /\ i = 1 /\ sds = "none" /\ cwd = "orig" /\ prev = "-" /\ fail = <<>> /\ cfail = <<>>
        /\ inCleanup = FALSE /\ ci = 1 /\ cleanupEntered = 0 /\ mains = 0
        /\ log = <<>> /\ done = FALSE /\ result = <<>>

Skippable(kk) == \/ Count(kk) = 0
                 \/ (mode = "act" /\ Forward[kk] \in {<<"main","ba">>, <<"main","assert">>})

Finish(s) == /\ done' = TRUE
             /\ sds' = s
             /\ cwd' = "orig"

EnterCleanup(p) == /\ inCleanup' = TRUE /\ ci' = 1 /\ prev' = p /\ cleanupEntered' = cleanupEntered + 1

\* A forward step with nothing to do.
SkipStep ==
  /\ ~done /\ ~inCleanup /\ k <= NF /\ k # KMkSds /\ Skippable(k)
  /\ ~(k = 2 /\ tcStatus = "SKIP")
  /\ k' = k + 1 /\ i' = 1
  /\ UNCHANGED <<n, tcStatus, mode, sds, cwd, prev, fail, cfail, inCleanup, ci, cleanupEntered, mains, log, done, result>>

\* Status SKIP: after the configuration phase nothing at all is done.
SkipCase ==
  /\ ~done /\ k = 2 /\ i = 1 /\ tcStatus = "SKIP" /\ fail = <<>>
  /\ Finish("none")
  /\ UNCHANGED <<n, tcStatus, mode, k, i, prev, fail, cfail, inCleanup, ci, cleanupEntered, mains, log, result>>

CreateSandbox ==
  /\ ~done /\ ~inCleanup /\ k = KMkSds
  /\ sds = "none"
  /\ sds' = "live" /\ cwd' = "act" /\ k' = k + 1 /\ i' = 1
  /\ UNCHANGED <<n, tcStatus, mode, prev, fail, cfail, inCleanup, ci, cleanupEntered, mains, log, done, result>>

\* Instruction i of forward step k produces outcome o.
ForwardStep(o) ==
  /\ ~done /\ ~inCleanup /\ k <= NF /\ k # KMkSds /\ ~Skippable(k)
  /\ ~(k = 2 /\ tcStatus = "SKIP")
  /\ o \in Outcomes(Forward[k][1], Forward[k][2])
  /\ log' = Append(log, <<Forward[k][1], Forward[k][2], i, o>>)
  /\ mains' = IF HasEffects(k) THEN mains + 1 ELSE mains
  /\ IF o = "ok" THEN
        /\ IF i < Count(k) THEN i' = i + 1 /\ k' = k ELSE i' = 1 /\ k' = k + 1
        /\ UNCHANGED <<fail, inCleanup, ci, prev, cleanupEntered, done, sds, cwd>>
     ELSE
        /\ fail' = <<Forward[k][1], Forward[k][2], Status(o)>>
        /\ UNCHANGED <<k, i>>
        /\ IF sds = "live" THEN EnterCleanup(PrevFor(k)) /\ UNCHANGED <<done, sds, cwd>>
           ELSE Finish("none") /\ UNCHANGED <<inCleanup, ci, prev, cleanupEntered>>
  /\ UNCHANGED <<n, tcStatus, mode, cfail, result>>

ForwardDone ==
  /\ ~done /\ ~inCleanup /\ k > NF
  /\ EnterCleanup(IF mode = "act" THEN "ACT" ELSE "ASSERT")
  /\ UNCHANGED <<n, tcStatus, mode, k, i, sds, cwd, fail, cfail, mains, log, done, result>>

SdsAtEnd == IF mode = "keep" THEN "kept" ELSE "removed"

CleanupStep(o) ==
  /\ ~done /\ inCleanup /\ ci <= n["cleanup"]
  /\ o \in Outcomes("main", "cleanup")
  /\ log' = Append(log, <<"main", "cleanup", ci, o, prev>>)
  /\ mains' = mains + 1
  /\ IF o = "ok" THEN ci' = ci + 1 /\ UNCHANGED <<cfail, done, sds, cwd>>
     ELSE cfail' = <<"main", "cleanup", Status(o)>> /\ Finish(SdsAtEnd) /\ UNCHANGED ci
  /\ UNCHANGED <<n, tcStatus, mode, k, i, prev, fail, inCleanup, cleanupEntered, result>>

CleanupDone ==
  /\ ~done /\ inCleanup /\ ci > n["cleanup"]
  /\ Finish(SdsAtEnd)
  /\ UNCHANGED <<n, tcStatus, mode, k, i, prev, fail, cfail, inCleanup, ci, cleanupEntered, mains, log, result>>

\* The one documented freedom: when a forward step and a cleanup instruction both failed, either may be named.
Acceptable == IF fail = <<>> /\ cfail = <<>> THEN {<<"-", "-", "PASS">>}
              ELSE (IF fail # <<>> THEN {fail} ELSE {}) \cup (IF cfail # <<>> THEN {cfail} ELSE {})

Report ==
  /\ done /\ result = <<>>
  /\ result' \in Acceptable
  /\ UNCHANGED <<n, tcStatus, mode, k, i, sds, cwd, prev, fail, cfail, inCleanup, ci, cleanupEntered, mains, log, done>>

Next == \/ SkipStep \/ SkipCase \/ CreateSandbox \/ ForwardDone \/ CleanupDone \/ Report
        \/ \E o \in {"ok", "ve", "he_ret", "he_raise", "fail", "syntax", "exc"} : ForwardStep(o) \/ CleanupStep(o)

Spec == Init /\ [][Next]_vars
FairSpec == Spec /\ WF_vars(Next)

-----------------------------------------------------------------------------
(* Properties (C01, and the executor part of C03 / C04)                     *)

Rank(e) == IF e[1] = "main" /\ e[2] = "cleanup" THEN NF + 1
           ELSE CHOOSE kk \in 1..NF : Forward[kk] = <<e[1], e[2]>>

TypeOK == /\ k \in 1..NF+1 /\ i \in 1..MaxN+1 /\ sds \in {"none", "live", "removed", "kept"}
          /\ cwd \in {"orig", "act"} /\ cleanupEntered \in 0..1 + 1

\* Fixed order of steps; file order inside a step.  (Stated for the newest log entry: TLC evaluates it in every
\* reachable state, i.e. for every prefix of every log.)
StepOrder ==
  LET b == Len(log) a == Len(log) - 1 IN
  b >= 2 =>
     /\ Rank(log[a]) <= Rank(log[b])
     /\ Rank(log[a]) = Rank(log[b]) => log[b][3] = log[a][3] + 1
     /\ Rank(log[a]) < Rank(log[b]) => log[b][3] = 1

IsExecution(e) == e[1] \in {"main", "post", "exeinput", "prepare", "execute"} /\ e[2] # "conf"

\* Every phase is validated (act parse, symbols, pre-sds) before any phase's main step.
\* (Again stated for the newest entry, evaluated in every state.)
ValidateBeforeMain ==
  LET a == Len(log) IN
  (a >= 1 /\ IsExecution(log[a])) =>
     \A kk \in ValidationKs : \A j \in 1..Count(kk) :
        \E b \in 1..a-1 : log[b] = <<Forward[kk][1], Forward[kk][2], j, "ok">>

\* Forward progress stops at the first step that does not succeed: only cleanup main may follow.
HaltAtFirstFailure ==
  \A a \in 1..Len(log) : log[a][4] # "ok" =>
     \A b \in a+1..Len(log) : log[b][1] = "main" /\ log[b][2] = "cleanup"

CleanupEntries == SelectSeq(log, LAMBDA e : e[1] = "main" /\ e[2] = "cleanup")

\* Once the sandbox exists the cleanup phase is run exactly once, whatever happened before.
CleanupExactlyOnce ==
  done => /\ cleanupEntered = (IF sds = "none" THEN 0 ELSE 1)
          /\ LET c == CleanupEntries IN
             /\ \A a \in 1..Len(c) : c[a][3] = a
             /\ \A a \in 1..Len(c)-1 : c[a][4] = "ok"
             /\ sds # "none" => (Len(c) = n["cleanup"] \/ (Len(c) > 0 /\ c[Len(c)][4] # "ok"))
             /\ sds = "none" => Len(c) = 0

ForwardEntries == SelectSeq(log, LAMBDA e : ~(e[1] = "main" /\ e[2] = "cleanup"))

\* ... and is told which phase ran last.
ExpectedPrev ==
  LET f == ForwardEntries IN
  IF Len(f) > 0 /\ f[Len(f)][4] # "ok"
  THEN (LET e == f[Len(f)] IN
        IF e[1] = "execute" THEN "ACT"
        ELSE IF e[1] = "main" /\ e[2] = "ba" THEN "BEFORE_ASSERT"
        ELSE IF e[1] = "main" /\ e[2] = "assert" THEN "ASSERT" ELSE "SETUP")
  ELSE IF mode = "act" THEN "ACT" ELSE "ASSERT"
CleanupToldPrevious ==
  \A a \in 1..Len(log) : (log[a][1] = "main" /\ log[a][2] = "cleanup") => log[a][5] = ExpectedPrev

\* The reported outcome names the earliest failing step (or a failing cleanup step) with its kind of failure.
FirstFailure ==
  LET bad == {a \in 1..Len(log) : log[a][4] # "ok"} IN
  IF bad = {} THEN <<>> ELSE LET a == CHOOSE x \in bad : \A y \in bad : x <= y IN
                             <<log[a][1], log[a][2], Status(log[a][4])>>
OutcomeNamesFailure ==
  result # <<>> =>
     \/ result = FirstFailure
     \/ (FirstFailure = <<>> /\ result[3] = "PASS")
     \/ (result[1] = "main" /\ result[2] = "cleanup"
         /\ \E a \in 1..Len(log) : log[a][2] = "cleanup" /\ log[a][1] = "main" /\ Status(log[a][4]) = result[3]
                                   /\ log[a][4] # "ok")
NeverPassAfterFailure ==
  (result # <<>> /\ result[3] = "PASS") => \A a \in 1..Len(log) : log[a][4] = "ok"

SkipRunsNothing ==
  (tcStatus = "SKIP" /\ done /\ fail = <<>>) => (\A a \in 1..Len(log) : log[a][2] = "conf") /\ sds = "none"
ConfFailureRunsNothing ==
  (fail # <<>> /\ fail[2] = "conf") => (\A a \in 1..Len(log) : log[a][2] = "conf") /\ sds = "none"

\* C03 (executor part): a failing validation means no effects and no sandbox.
NoEffectWhenInvalid ==
  (fail # <<>> /\ fail[1] \in {"parse", "sym", "pre"}) => (mains = 0 /\ sds = "none" /\ cfail = <<>>)

\* C04 (executor part): sandbox gone (or kept and reported), process state restored.
RemovedAtEnd == done => (IF mode = "keep" THEN sds \in {"none", "kept"} ELSE sds \in {"none", "removed"})
ProcessStateRestored == done => cwd = "orig"
SandboxBeforeEffects == mains > 0 => sds # "none"
CwdInSandboxWhileLive == (sds = "live" /\ ~done) => cwd = "act"

\* liveness (checked with FairSpec)
Termination == <>(done /\ result # <<>>)
CleanupEventually == (sds = "live") ~> (cleanupEntered = 1)

=============================================================================
