------------------------- MODULE PhaseExecExport -------------------------
(* Export of every terminal state of PhaseExec for replay against the real executor:   *)
(* the log is both the fault script and the expected call sequence; acc is the set of   *)
(* acceptable reports <<step, phase, status, verdict>>.                                  *)
EXTENDS PhaseExec, Json

O == INSTANCE Outcome

Export == (done /\ result = <<>>) =>
   PrintT(<<"CASE", ToJson([n |-> n, st |-> tcStatus, mode |-> mode, log |-> log,
                            acc |-> {<<r[1], r[2], r[3], O!Verdict(tcStatus, r[3])>> : r \in Acceptable},
                            sds |-> sds, mains |-> mains])>>)
=============================================================================
