--------------------------- MODULE SymRefsExport ---------------------------
EXTENDS SymRefs, Json
Export == PrintT(<<"REFS", ToJson([src |-> src, value |-> Value, nrefs |-> NumRefs])>>)
=============================================================================
