-------------------------- MODULE SuiteCasesExport --------------------------
(* Export of every invocation SuiteCases explores, for replay against the real program: the file tree the input  *)
(* stands for (the documents of the suite and case files, instruction by instruction), how the program is        *)
(* invoked, and what the machine ended with - the identifier of every processed case, the records in the order   *)
(* they are written, and the state of the process.  Checked as an INVARIANT with -workers 1.                     *)
EXTENDS SuiteCases

SuiteIds == IF HasSub(inp) THEN <<0, 1>> ELSE <<0>>
Tree == [suites |-> [j \in DOMAIN SuiteIds |->
                        [id |-> SuiteIds[j], doc |-> SuiteDoc(inp, SuiteIds[j]), pre |-> SuitePre(inp, SuiteIds[j]),
                         cases |-> CasesOf(inp, SuiteIds[j]),
                         subs |-> IF SuiteIds[j] = 0 /\ HasSub(inp) THEN <<1>> ELSE <<>>]],
         cases |-> [c \in 1..NCases(inp) |-> [doc |-> OwnDoc(inp, c), home |-> HomeOf(inp, c)]]]

Export == Done =>
   PrintT(<<"CASE", ToJson([fam |-> inp.fam, h |-> inp.h, s0 |-> inp.s0, s1 |-> inp.s1, cs |-> inp.cs,
                            sk |-> inp.sk, n |-> inp.n, vs |-> inp.vs, way |-> way, tgt |-> tgt, tree |-> Tree,
                            idents |-> idents, log |-> log, penv |-> P.env, pcwd |-> P.cwd])>>)
=============================================================================
