import io, sys, warnings, os, tempfile, stat
warnings.simplefilter('ignore')
from exactly_lib.cli_default.default_main_program_setup import default_main_program
from exactly_lib.util.file_utils.std import StdOutputFiles
mp = default_main_program()
d = tempfile.mkdtemp(); tempfile.tempdir = d
OUT = os.path.join(d, 'out.txt')
probe = os.path.join(d, 'probe')
open(probe, 'w').write("""#!/bin/sh
{
  printf 'ARGC=%s\\n' "$#"
  for a in "$@"; do printf 'ARG=[%s]\\n' "$a"; done
  printf 'CWD=%s\\n' "$(pwd)"
  printf 'STDIN=[%s]\\n' "$(cat)"
  printf 'PARENT=[%s]\\n' "$(tr '\\0' '|' < /proc/$PPID/cmdline)"
} >> """ + OUT + """
echo to-stdout
echo to-stderr >&2
exit ${PROBE_EXIT:-0}
""")
os.chmod(probe, 0o755)
def run_text(text, args=()):
    p = os.path.join(d, 'c.case'); open(p, 'w').write(text)
    if os.path.exists(OUT): os.remove(OUT)
    out, err = io.StringIO(), io.StringIO()
    rc = mp.execute(list(args) + [p], StdOutputFiles(out, err))
    e = ' | '.join([l.strip() for l in err.getvalue().splitlines() if l.strip()][:4])
    pr = open(OUT).read() if os.path.exists(OUT) else None
    return out.getvalue().strip(), pr, e[:200].replace(d, 'D')
cases = {
 'atc args+stdin': "[setup]\nstdin = 'from-setup'\ndef list L = l1 'l 2'\n[act]\nprobe a '' \"b c\" @[L]@ \"@[L]@\" -x :> rest  of line 'q'\n[assert]\nexit-code == 0\nstdout equals <<-\nto-stdout\n-\nstderr equals <<-\nto-stderr\n-\n",
 'program chain': "[setup]\ndef program P1 = probe p1a\n -stdin 'in1 '\ndef program P2 = @ P1 p2a\n -stdin 'in2 '\ndef program P3 = @ P2 p3a\nstdin = 'act-in'\n[act]\n@ P3 last\n -stdin 'in4 '\n",
 'shell verbatim': "[act]\n$ " + probe + "  a   'b  c'  \"d\" && :\n",
 'cwd after cd': "[setup]\ndir sub\ncd sub\n[act]\nprobe\n",
 'run in assert nonzero': "[setup]\nenv PROBE_EXIT = 3\n[assert]\nrun probe\n",
 'run in setup nonzero': "[setup]\nenv PROBE_EXIT = 3\nrun probe\n",
 'run in cleanup nonzero ignore': "[setup]\nenv PROBE_EXIT = 3\n[cleanup]\nrun -ignore-exit-code probe\n",
 'exit code 255': "[setup]\nenv PROBE_EXIT = 255\n[act]\nprobe\n[assert]\nexit-code == 255\n",
 'transform chain': "[setup]\ndef program P1 = probe\n -transformed-by replace to X\ndef program P2 = @ P1\n -transformed-by replace X Y\n[assert]\nstdout -from @ P2\n equals <<-\nY-stdout\n-\n",
}
for name, text in cases.items():
    r = run_text(text)
    print('##', name, '=>', r[0], r[2]); print(r[1])
import shutil; shutil.rmtree(d)
