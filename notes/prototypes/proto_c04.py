"""Throwaway probe for C04: sandbox layout/lifecycle, cwd and environ restoration (real instructions)."""
import io, sys, warnings, os, tempfile, shutil, collections, json
warnings.simplefilter('ignore')
from exactly_lib.cli_default.default_main_program_setup import default_main_program
from exactly_lib.util.file_utils.std import StdOutputFiles
mp = default_main_program()
d = tempfile.mkdtemp(); tempfile.tempdir = os.path.join(d, 'tmp'); os.mkdir(tempfile.tempdir)
home = os.path.join(d, 'home'); os.mkdir(home); SNAP = os.path.join(d, 'snap'); os.mkdir(SNAP)
snapper = os.path.join(d, 'snapper.sh')
open(snapper, 'w').write("""#!/bin/sh
# $1 = tag ; EXACTLY sandbox root is two levels up from act dir given as $2
root="$2"
{ echo "CWD=$(pwd)"; cd "$root" && find . | sort; } > %s/$1.txt
for f in stdout stderr exit-code; do [ -f "$root/result/$f" ] && { printf '%%s=[' $f; cat "$root/result/$f"; printf ']\\n'; } >> %s/$1.txt; done
exit 0
""" % (SNAP, SNAP))
os.chmod(snapper, 0o755)
def run(argv):
    out, err = io.StringIO(), io.StringIO()
    rc = mp.execute(argv, StdOutputFiles(out, err)); return rc, out.getvalue().strip(), err.getvalue()
def snap(tag): return "run %s %s @[EXACTLY_ACT]@/.." % (snapper, tag)
ENDINGS = {
  'pass': {}, 'setup-he': {'setup': '$ exit 1'}, 'ba-he': {'before-assert': '$ exit 1'}, 'assert-fail': {'assert': 'exit-code == 99'},
  'assert-he': {'assert': 'contents nonexisting : is-empty'}, 'cleanup-he': {'cleanup': '$ exit 1'}, 'act-he': {'ACT': 'nonexisting-program-@[EXACTLY_ACT]@'},
  'post-setup-val': {'assert': 'contents -rel-act nope.txt : is-empty', '_note': 'validate_post_setup? (just HARD in main)'},
}
bad = []; os.environ['VERIF_CANARY'] = 'orig'
for name, inj in ENDINGS.items():
    for keep in (False, True):
        for f in os.listdir(SNAP): os.remove(os.path.join(SNAP, f))
        act = inj.get('ACT', "$ echo out; echo err >&2; cd /; exit 7")
        text = ("[setup]\n" + snap('setup-begin') + "\nenv VERIF_CANARY = changed\nenv unset HOME\ndir sub\ncd sub\n" + inj.get('setup', '') + "\n"
                "[act]\n" + act + "\n"
                "[before-assert]\n" + snap('after-act') + "\n" + inj.get('before-assert', '') + "\n"
                "[assert]\n" + inj.get('assert', 'exit-code == 7') + "\n"
                "[cleanup]\n" + snap('cleanup') + "\n" + inj.get('cleanup', '') + "\n")
        p = os.path.join(home, 'c.case'); open(p, 'w').write(text)
        cwd0, env0 = os.getcwd(), dict(os.environ)
        rc, out, err = run((['--keep'] if keep else []) + [p])
        left = os.listdir(tempfile.tempdir)
        snaps = {f[:-4]: open(os.path.join(SNAP, f)).read() for f in sorted(os.listdir(SNAP))}
        problems = []
        if os.getcwd() != cwd0: problems.append('cwd changed: ' + os.getcwd())
        if dict(os.environ) != env0: problems.append('environ changed')
        if keep and (len(left) != 1 or out != os.path.join(tempfile.tempdir, left[0])): problems.append('keep: %r %r' % (left, out))
        if not keep and left: problems.append('left behind: %r' % left)
        sb = snaps.get('setup-begin', '')
        if sb:
            lines = sb.split('\n'); exp_layout = ['.', './act', './internal', './internal/log', './internal/tmp', './result', './tmp']
            layout = [l for l in lines[1:] if l and not l.startswith('./internal/tmp/') and not l.startswith('./internal/log/')]
            if layout != exp_layout: problems.append('layout: %r' % layout)
            if not lines[0].endswith('/act'): problems.append('initial cwd: ' + lines[0])
        aa = snaps.get('after-act')
        if aa and 'ACT' not in inj:
            if 'stdout=[out\n]' not in aa or 'stderr=[err\n]' not in aa or 'exit-code=[7]' not in aa: problems.append('result: ' + aa[-200:])
            if not aa.split('\n')[0].endswith('/act/sub'): problems.append('cwd after act (child cd must not matter): ' + aa.split('\n')[0])
        for tag, s in snaps.items():
            tmp_entries = [l for l in s.split('\n') if l.startswith('./tmp/')]
            if tmp_entries: problems.append('tmp touched at %s: %r' % (tag, tmp_entries))
        if 'cleanup' not in snaps and name != 'x': problems.append('cleanup did not run')
        if problems: bad.append((name, keep, rc, err.split('\n')[0] if not keep else err.split('\n')[0], problems))
        for x in left: shutil.rmtree(os.path.join(tempfile.tempdir, x), ignore_errors=True)
print('problems:', len(bad)); [print('   ', b) for b in bad]
shutil.rmtree(d)
