SPECIFICATION Spec
INVARIANT Reached
POSTCONDITION Accepted
CHECK_DEADLOCK FALSE
