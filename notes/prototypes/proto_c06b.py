import io, sys, warnings, os, tempfile, json, random, time
warnings.simplefilter('ignore')
from exactly_lib.cli_default.default_main_program_setup import default_main_program
from exactly_lib.util.file_utils.std import StdOutputFiles
mp = default_main_program()
d = tempfile.mkdtemp(); tempfile.tempdir = d
def run_text(text):
    p = os.path.join(d, 'c.case'); open(p, 'w').write(text)
    out, err = io.StringIO(), io.StringIO()
    rc = mp.execute([p], StdOutputFiles(out, err))
    return out.getvalue().strip()
HOSTS = {
  'int':  ("[assert]\nexit-code %s\n", {'T': '== 0', 'F': '!= 0'}),
  'file': ("[setup]\nfile f\n[assert]\nexists f : %s\n", {'T': 'constant true', 'F': 'constant false'}),
  'text': ("[setup]\nfile f\n[assert]\ncontents f : %s\n", {'T': 'is-empty', 'F': '! is-empty'}),
}
cases = [json.loads(l) for l in open('/tmp/t1/g.ndjson')]
valid = [c for c in cases if c['d']['r'] != 'ERR']
invalid = [c for c in cases if c['d']['r'] == 'ERR']
random.seed(1)
sample = valid + random.sample(invalid, 3000)
EXP = {'T': 'PASS', 'F': 'FAIL', 'ERR': 'SYNTAX_ERROR'}
t = time.time(); bad = {}
for host, (tmpl, leaves) in HOSTS.items():
    for c in sample:
        src = ' '.join(leaves.get(tok, tok) for tok in c['ts'])
        got = run_text(tmpl % src)
        if got != EXP[c['d']['r']]:
            bad.setdefault(host, []).append((c['ts'], c['d']['r'], got))
print('ran', len(sample) * len(HOSTS), 'in', time.time() - t)
for h, l in bad.items():
    print(h, len(l)); [print('   ', x) for x in l[:12]]
import shutil; shutil.rmtree(d)
