SPECIFICATION Spec
CONSTANT MaxN = 2
INVARIANT CleanupOnce
INVARIANT SdsGone
INVARIANT NoMainBeforeValidation
INVARIANT HaltAtFirstFailure
CHECK_DEADLOCK FALSE
