import io, sys, warnings, os, tempfile
warnings.simplefilter('ignore')
from exactly_lib.cli_default.default_main_program_setup import default_main_program
from exactly_lib.util.file_utils.std import StdOutputFiles
mp = default_main_program()
d = tempfile.mkdtemp(); tempfile.tempdir = d
def w(rel, text):
    p = os.path.join(d, rel); os.makedirs(os.path.dirname(p), exist_ok=True); open(p, 'w').write(text)
def run(argv):
    out, err = io.StringIO(), io.StringIO()
    rc = mp.execute(argv, StdOutputFiles(out, err)); return rc, out.getvalue(), err.getvalue()
LOG = os.path.join(d, 'log.txt')
w('s.suite', """[cases]
c1.case
c2.case
c3.case
[setup]
def string ACT_DIR = @[EXACTLY_ACT]@
def path P = -rel-act x
file probe.txt = "@[EXACTLY_ACT]@"
$ echo "suite-setup $(pwd) A=$A T=$T" >> %s
[assert]
contents probe.txt : matches -full @[EXACTLY_ACT]@
contents probe.txt : equals @[ACT_DIR]@
$ test "$(cat probe.txt)" = "$(pwd)"
[cleanup]
$ echo "suite-cleanup" >> %s
""" % (LOG, LOG))
w('c1.case', "[setup]\nenv A = from-c1\ntimeout = 1\ndef string X = c1\ncd -rel-tmp\n$ echo c1-setup >> %s\n[cleanup]\n$ echo c1-cleanup >> %s\n" % (LOG, LOG))
w('c2.case', "[setup]\n$ echo \"c2-setup A=$A\" >> %s\ndef string X = c2\n[assert]\n$ sleep 1.3\n" % LOG)
w('c3.case', "[act]\n$ echo hello\n[assert]\nstdout equals <<-\nhello\n-\n")
rc, out, err = run(['suite', os.path.join(d, 's.suite')])
print(rc); print(out); print(open(LOG).read())
for c in ('c1.case', 'c2.case', 'c3.case'):
    print(c, 'standalone --suite:', run(['--suite', os.path.join(d, 's.suite'), os.path.join(d, c)])[:2])
os.rename(os.path.join(d, 's.suite'), os.path.join(d, 'exactly.suite'))
for c in ('c1.case', 'c2.case', 'c3.case'):
    print(c, 'beside exactly.suite:', run([os.path.join(d, c)])[:2])
import shutil; shutil.rmtree(d)
