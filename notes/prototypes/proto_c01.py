"""Throwaway prototype: scripted stub instructions through the real full executor."""
import os, pathlib, sys, tempfile, warnings, json, itertools, time
warnings.simplefilter('ignore')
from exactly_lib.execution.configuration import ExecutionConfiguration
from exactly_lib.execution.full_execution import execution
from exactly_lib.execution.predefined_properties import os_environ_getter
from exactly_lib.impls.os_services import os_services_access
from exactly_lib.test_case import test_case_doc
from exactly_lib.test_case.phases.configuration import ConfigurationBuilder, ConfigurationPhaseInstruction
from exactly_lib.test_case.phases.setup.instruction import SetupPhaseInstruction
from exactly_lib.test_case.phases.before_assert import BeforeAssertPhaseInstruction
from exactly_lib.test_case.phases.assert_ import AssertPhaseInstruction
from exactly_lib.test_case.phases.cleanup import CleanupPhaseInstruction
from exactly_lib.test_case.phases.act.actor import Actor, ActionToCheck, ParseException
from exactly_lib.test_case.phases.act.instruction import ActPhaseInstruction
from exactly_lib.test_case.result import sh, svh, pfh
from exactly_lib.test_case.result.eh import ExitCodeOrHardError
from exactly_lib.test_case.result import eh
from exactly_lib.test_case.hard_error import HardErrorException
from exactly_lib.common.report_rendering import text_docs
from exactly_lib.util.name_and_value import NameAndValue
from exactly_lib.util.symbol_table import SymbolTable
from exactly_lib.util import line_source
from exactly_lib.section_document import model
from exactly_lib.section_document.source_location import SourceLocationInfo, source_location_path_of
from exactly_lib.symbol.sdv_structure import SymbolReference
from exactly_lib.type_val_deps.sym_ref.w_str_rend_restrictions import reference_restrictions

MSG = text_docs.single_pre_formatted_line_object('scripted')
LOG = []

def outcome_svh(o):
    if o == 'ok': return svh.new_svh_success()
    if o == 've': return svh.new_svh_validation_error(MSG)
    if o == 'he_ret': return svh.new_svh_hard_error(MSG)
    if o == 'he_raise': raise HardErrorException(MSG)
    if o == 'exc': raise RuntimeError('scripted')
    raise ValueError(o)

def outcome_sh(o):
    if o == 'ok': return sh.new_sh_success()
    if o == 'he_ret': return sh.new_sh_hard_error(MSG)
    if o == 'he_raise': raise HardErrorException(MSG)
    if o == 'exc': raise RuntimeError('scripted')
    raise ValueError(o)

def outcome_pfh(o):
    if o == 'ok': return pfh.new_pfh_pass()
    if o == 'fail': return pfh.new_pfh_fail(MSG)
    if o == 'he_ret': return pfh.new_pfh_hard_error(MSG)
    if o == 'he_raise': raise HardErrorException(MSG)
    if o == 'exc': raise RuntimeError('scripted')
    raise ValueError(o)

def sym_usages(o):
    if o == 'ok': return []
    if o == 've': return [SymbolReference('UNDEFINED', reference_restrictions.is_any_type_w_str_rendering())]
    if o == 'exc': raise RuntimeError('scripted')
    raise ValueError(o)

class Base:
    def __init__(self, phase, idx, script):
        self.phase, self.idx, self.script = phase, idx, script
    def _o(self, step, **kw):
        LOG.append(dict(step=step, phase=self.phase, idx=self.idx, **kw))
        return self.script.get(step, 'ok')

class Conf(Base, ConfigurationPhaseInstruction):
    def main(self, b): return outcome_svh(self._o('main'))

class Setup(Base, SetupPhaseInstruction):
    def symbol_usages(self): return sym_usages(self._o('sym'))
    def validate_pre_sds(self, e): return outcome_svh(self._o('pre'))
    def validate_post_setup(self, e): return outcome_svh(self._o('post'))
    def main(self, e, s, o, b): return outcome_sh(self._o('main'))

class BA(Base, BeforeAssertPhaseInstruction):
    def symbol_usages(self): return sym_usages(self._o('sym'))
    def validate_pre_sds(self, e): return outcome_svh(self._o('pre'))
    def validate_post_setup(self, e): return outcome_svh(self._o('post'))
    def main(self, e, s, o): return outcome_sh(self._o('main'))

class Assert(Base, AssertPhaseInstruction):
    def symbol_usages(self): return sym_usages(self._o('sym'))
    def validate_pre_sds(self, e): return outcome_svh(self._o('pre'))
    def validate_post_setup(self, e): return outcome_svh(self._o('post'))
    def main(self, e, s, o): return outcome_pfh(self._o('main'))

class Cleanup(Base, CleanupPhaseInstruction):
    def symbol_usages(self): return sym_usages(self._o('sym'))
    def validate_pre_sds(self, e): return outcome_svh(self._o('pre'))
    def main(self, e, s, o, prev): return outcome_sh(self._o('main', prev=prev.name))

class Atc(Base, ActionToCheck):
    def symbol_usages(self): return sym_usages(self._o('sym'))
    def validate_pre_sds(self, e): return outcome_svh(self._o('pre'))
    def validate_post_setup(self, e): return outcome_svh(self._o('post'))
    def prepare(self, e, o): return outcome_sh(self._o('prepare'))
    def execute(self, e, o, atc_input, output):
        x = self._o('execute')
        if x == 'ok': return eh.new_eh_exit_code(7)
        if x == 'he_ret': return eh.new_eh_hard_error(__import__('exactly_lib.test_case.result.failure_details', fromlist=['x']).FailureDetails.new_constant_message('scripted'))
        if x == 'he_raise': raise HardErrorException(MSG)
        raise RuntimeError('scripted')

class TheActor(Actor):
    def __init__(self, script): self.script = script
    def parse(self, instructions):
        LOG.append(dict(step='parse', phase='act', idx=0))
        o = self.script.get('parse', 'ok')
        if o == 'syntax': raise ParseException(MSG)
        if o == 'he_raise': raise HardErrorException(MSG)
        if o == 'exc': raise RuntimeError('scripted')
        return Atc('act', 0, self.script)

class ActInstr(ActPhaseInstruction):
    def source_code(self): return line_source.LineSequence(1, ('act source',))

_ln = itertools.count(1)
def elem(instr):
    n = next(_ln)
    src = line_source.Line(n, "line %d" % n)
    sli = SourceLocationInfo(pathlib.Path('.'), source_location_path_of(pathlib.Path('x.case'), src))
    return model.SectionContentElement(model.ElementType.INSTRUCTION, model.InstructionInfo(instr, None), sli)

def contents(instrs): return model.SectionContents(tuple(elem(i) for i in instrs))

def run(script, n=2, status=None):
    """script: {(phase, idx): {step: outcome}} and ('act',0): {...}"""
    del LOG[:]
    g = lambda ph, i: script.get((ph, i), {})
    tc = test_case_doc.TestCase(
        contents([Conf('conf', i, g('conf', i)) for i in range(n)]),
        contents([Setup('setup', i, g('setup', i)) for i in range(n)]),
        contents([ActInstr()]),
        contents([BA('ba', i, g('ba', i)) for i in range(n)]),
        contents([Assert('assert', i, g('assert', i)) for i in range(n)]),
        contents([Cleanup('cleanup', i, g('cleanup', i)) for i in range(n)]),
    )
    here = pathlib.Path.cwd().resolve()
    exe_conf = ExecutionConfiguration(os_environ_getter, None, 5, os_services_access.new_for_current_os(),
                                      lambda: tempfile.mkdtemp(prefix='exactly-proto-'), 2 ** 10, SymbolTable())
    cb = ConfigurationBuilder(here, here, NameAndValue('stub actor', TheActor(g('act', 0))))
    res = execution.execute(exe_conf, cb, False, tc)
    fi = res.failure_info
    return dict(status=res.status.name,
                step=(str(fi.phase_step) if fi is not None else None),
                atc=(res.action_to_check_outcome.exit_code if res.action_to_check_outcome else None),
                sds_exists=(res.sds.root_dir.exists() if res.has_sds else None),
                log=list(LOG))

def short(log):
    return ' '.join('%s.%s%d%s' % (e['phase'], e['step'], e['idx'], ('(' + e['prev'] + ')') if 'prev' in e else '') for e in log)

if __name__ == '__main__':
    r = run({})
    print(r['status'], r['step'], r['atc'], r['sds_exists']); print(short(r['log'])); print()
    for name, script in [
        ('assert1 fail + cleanup0 he', {('assert', 1): {'main': 'fail'}, ('cleanup', 0): {'main': 'he_ret'}}),
        ('setup1 main exc', {('setup', 1): {'main': 'exc'}}),
        ('setup1 main he + cleanup1 exc', {('setup', 1): {'main': 'he_raise'}, ('cleanup', 1): {'main': 'exc'}}),
        ('ba0 main he + cleanup0 he', {('ba', 0): {'main': 'he_ret'}, ('cleanup', 0): {'main': 'he_ret'}}),
        ('cleanup1 pre ve', {('cleanup', 1): {'pre': 've'}}),
        ('cleanup1 sym ve', {('cleanup', 1): {'sym': 've'}}),
        ('setup0 sym exc', {('setup', 0): {'sym': 'exc'}}),
        ('act parse syntax', {('act', 0): {'parse': 'syntax'}}),
        ('act execute he', {('act', 0): {'execute': 'he_ret'}}),
        ('act post ve', {('act', 0): {'post': 've'}}),
        ('assert0 post he', {('assert', 0): {'post': 'he_ret'}}),
        ('conf1 ve', {('conf', 1): {'main': 've'}}),
    ]:
        r = run(script)
        print('##', name, '=>', r['status'], r['step'], 'atc=', r['atc'], 'sds_exists=', r['sds_exists'])
        print('   ', short(r['log']))
    t = time.time()
    for i in range(300): run({('assert', 1): {'main': 'fail'}})
    print('per run', (time.time() - t) / 300)
