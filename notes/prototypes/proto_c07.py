import io, sys, warnings, os, tempfile
warnings.simplefilter('ignore')
from exactly_lib.cli_default.default_main_program_setup import default_main_program
from exactly_lib.util.file_utils.std import StdOutputFiles
mp = default_main_program()
d = tempfile.mkdtemp()
def run_files(files, main='c.case', args=()):
    for n, t in files.items():
        p = os.path.join(d, n); os.makedirs(os.path.dirname(p), exist_ok=True); open(p, 'w').write(t)
    out, err = io.StringIO(), io.StringIO()
    rc = mp.execute(list(args) + [os.path.join(d, main)], StdOutputFiles(out, err))
    e = ' | '.join([l.strip() for l in err.getvalue().splitlines() if l.strip()][:7])
    return rc, out.getvalue().strip(), e.replace(d, 'D')[:230]

cases = {
 'malformed header [setup':      {'c.case': "[setup\nfile f\n"},
 'header w trailing text':       {'c.case': "[setup] x\nfile f\n"},
 'header w spaces':              {'c.case': "  [setup]  \nfile f\n[assert]\nexists f\n"},
 'header inner spaces':          {'c.case': "[ setup ]\nfile f\n"},
 'unknown header':               {'c.case': "[nophase]\nfile f\n"},
 'header in heredoc':            {'c.case': "[setup]\nfile f = <<EOF\n[assert]\n# not comment\n\nEOF\n[assert]\ncontents f : num-lines == 3\n"},
 'default phase is act':         {'c.case': "$ exit 3\n[assert]\nexit-code == 3\n"},
 'escaped header in act':        {'c.case': "[conf]\nactor = source % sh\n[act]\n\\[ 1 = 1 ]\n[assert]\nexit-code == 0\n"},
 'comment between instr':        {'c.case': "[assert]\n# c\nexit-code == 0\n\n   # c2\nexit-code == 0\n"},
 'description':                  {'c.case': "[assert]\n`descr`\nexit-code == 1\n"},
 'description multi-line':       {'c.case': "[assert]\n`descr\nmore`\n\nexit-code == 1\n"},
 'include splice':               {'c.case': "[setup]\nfile a\nincluding inc.xly\nfile c\n[assert]\nexists a\nexists b\nexists c\nexists d\n",
                                  'inc.xly': "file b\n[assert]\nexit-code == 0\n[setup]\nfile d\n"},
 'include changes phase? (no)':  {'c.case': "[setup]\nincluding inc2.xly\nfile c\n[assert]\nexists c\n",
                                  'inc2.xly': "[assert]\nexit-code == 0\n"},
 'include cycle':                {'c.case': "[setup]\nincluding i1.xly\n", 'i1.xly': "including i2.xly\n", 'i2.xly': "including i1.xly\n"},
 'include self':                 {'c.case': "[setup]\nincluding c.case\n"},
 'include missing':              {'c.case': "[setup]\nincluding nope.xly\n"},
 'include in act':               {'c.case': "[act]\nincluding inc.xly\n", 'inc.xly': "file b\n"},
 'include error location':       {'c.case': "[setup]\nfile a\nincluding sub/inc3.xly\n", 'sub/inc3.xly': "file b\n\nnot-an-instruction x\n"},
 'include twice (diamond)':      {'c.case': "[setup]\nincluding i4.xly\nincluding i4.xly\n", 'i4.xly': "[assert]\nexit-code == 0\n"},
 'merge order':                  {'c.case': "[assert]\nexit-code == 1\n[setup]\n[assert]\nexit-code == 2\n"},
 'phases permuted':              {'c.case': "[cleanup]\n[assert]\nexists f\n[setup]\nfile f\n"},
 'eof in heredoc':               {'c.case': "[setup]\nfile f = <<EOF\nabc\n"},
 'instr outside (suite)':        None,
}
for name, files in cases.items():
    if files is None: continue
    print('%-28s' % name, run_files(files))
