"""Throwaway differential probe for C07: all documents of <= N units over line-kind units vs a reference."""
import sys, warnings, os, itertools, time, collections, pathlib
warnings.simplefilter('ignore')
from exactly_lib.cli_default.program_modes.test_case import default_instructions_setup
from exactly_lib.common import instruction_name_and_argument_splitter
from exactly_lib.processing.instruction_setup import TestCaseParsingSetup
from exactly_lib.processing.parse.act_phase_source_parser import ActPhaseParser
from exactly_lib.processing.parse import test_case_parser
from exactly_lib.processing.test_case_processing import TestCaseFileReference
from exactly_lib.section_document.parse_source import ParseSource
from exactly_lib.section_document import exceptions
from exactly_lib.section_document.model import ElementType
parser = test_case_parser.new_parser(TestCaseParsingSetup(instruction_name_and_argument_splitter.splitter,
                                                          default_instructions_setup.INSTRUCTIONS_SETUP, ActPhaseParser()))
PH = ['conf', 'setup', 'act', 'before_assert', 'assert', 'cleanup']
def real(text):
    try:
        tc = parser.apply(TestCaseFileReference(pathlib.Path('/nonexisting/c.case'), pathlib.Path('/nonexisting')), ParseSource(text))
    except exceptions.ParseError as ex:
        # location of error
        try:
            lp = ex.location_path; src = lp[-1].source
            return ('ERR', src.first_line.line_number if hasattr(src, 'first_line') else src.first_line_number)
        except Exception as e2:
            return ('ERR', '?')
    res = {}
    for name, sec in zip(PH, [tc.configuration_phase, tc.setup_phase, tc.act_phase, tc.before_assert_phase, tc.assert_phase, tc.cleanup_phase]):
        els = []
        for e in sec.elements:
            if e.element_type is ElementType.INSTRUCTION:
                s = e.source
                els.append((s.first_line.line_number if hasattr(s, 'first_line') else s.first_line_number, len(s.lines)))
        if els: res[name] = els
    return ('OK', res)
UNITS = {  # kind -> list of lines
 'Hs': ['[setup]'], 'Ha': ['[assert]'], 'Hact': ['[act]'], 'Hc': ['  [cleanup]  '], 'Hunk': ['[nophase]'], 'Hmal': ['[setup'],
 'C': ['# comment'], 'B': [''], 'I': ['timeout = 1'], 'ML': ['file f = <<EOF', '[assert]', '# x', 'EOF'], 'DI': ['`descr`', 'timeout = 2'],
 'X': ['echo hi'], 'INC': ['file'],
}
SEC = {'Hs': 'setup', 'Ha': 'assert', 'Hact': 'act', 'Hc': 'cleanup'}
def reference(units):
    lines = [l for u in units for l in UNITS[u]]
    phase = 'act'; res = {}; act_block = None; i = 0; n = len(lines)
    HDR = {'[setup]': 'setup', '[assert]': 'assert', '[act]': 'act', '  [cleanup]  ': 'cleanup'}
    def close_act():
        nonlocal act_block
        if act_block: res.setdefault('act', []).append(tuple(act_block)); act_block = None
    while i < n:
        l = lines[i]; ln = i + 1
        if l.lstrip().startswith('['):
            if l in HDR: close_act(); phase = HDR[l]; i += 1; continue
            return ('ERR', ln)
        if phase == 'act':
            if act_block is None: act_block = [ln, 0]
            act_block[1] += 1; i += 1; continue
        if l.strip() == '' or l.lstrip().startswith('#'): i += 1; continue
        descr = False
        if l.startswith('`'):
            # description on one line, instruction must follow (possibly after blank lines?) -> model: next line
            descr = True; i += 1
            if i >= n: return ('ERR', ln)
            l = lines[i]; ln2 = i + 1
            if l.lstrip().startswith('['): return ('ERR', ln)
        else: ln2 = ln
        if l.startswith('timeout = '): res.setdefault(phase, []).append((ln2, 1)); i += 1; continue
        if l == 'file f = <<EOF':
            j = i + 1
            while j < n and lines[j] != 'EOF': j += 1
            if j >= n: return ('ERR', ln2)
            res.setdefault(phase, []).append((ln2, j - i + 1)); i = j + 1; continue
        return ('ERR', ln2)
    close_act()
    return ('OK', res)
N = int(sys.argv[1]) if len(sys.argv) > 1 else 4
bad = collections.defaultdict(list); n = 0; t0 = time.time()
for k in range(0, N + 1):
    for units in itertools.product(UNITS, repeat=k):
        text = ''.join(l + '\n' for u in units for l in UNITS[u])
        exp = reference(units); got = real(text); n += 1
        if exp != got:
            cls = 'INC' if 'INC' in units else ('DI' if 'DI' in units else ('ML' if 'ML' in units else 'other'))
            bad[cls].append((units, exp, got))
print('ran', n, 'in', round(time.time() - t0, 1))
for k, v in bad.items():
    print('CLASS', k, len(v))
    for x in v[:12]: print('    ', x)
