"""Throwaway probe for C19: every kind of program use must honour `timeout = 1` (child sleeps 4 s)."""
import os, sys, subprocess, tempfile, time, shutil
from concurrent.futures import ThreadPoolExecutor
d = tempfile.mkdtemp(); home = os.path.join(d, 'home'); os.mkdir(home)
slow = os.path.join(d, 'slow.sh')
open(slow, 'w').write("#!/bin/sh\necho $$ > %s/pid-$1\nsleep 4\ncat >/dev/null 2>&1\necho done\nexit 0\n" % d)
os.chmod(slow, 0o755)
PLACES = {
 'act':                 "[setup]\ntimeout = 1\n[act]\n{slow} {tag}\n",
 'act-shell':           "[setup]\ntimeout = 1\n[act]\n$ {slow} {tag}\n",
 'setup-run':           "[setup]\ntimeout = 1\nrun {slow} {tag}\n",
 'setup-dollar':        "[setup]\ntimeout = 1\n$ {slow} {tag}\n",
 'setup-percent':       "[setup]\ntimeout = 1\n% {slow} {tag}\n",
 'setup-stdout-from':   "[setup]\ntimeout = 1\nfile f = -stdout-from {slow} {tag}\n",
 'setup-stdin-program': "[setup]\ntimeout = 1\nstdin = -stdout-from {slow} {tag}\n[act]\n$ cat\n",
 'setup-env-program':   "[setup]\ntimeout = 1\nenv X = -stdout-from {slow} {tag}\n",
 'setup-transformer':   "[setup]\ntimeout = 1\nfile f = 'abc' -transformed-by run {slow} {tag}\n",
 'ba-run':              "[setup]\ntimeout = 1\n[before-assert]\nrun {slow} {tag}\n",
 'assert-run':          "[setup]\ntimeout = 1\n[assert]\nrun {slow} {tag}\n",
 'assert-exit-code-from': "[setup]\ntimeout = 1\n[assert]\nexit-code -from {slow} {tag}\n == 0\n",
 'assert-stdout-from':  "[setup]\ntimeout = 1\n[assert]\nstdout -from {slow} {tag}\n is-empty\n",
 'assert-text-matcher-run': "[setup]\ntimeout = 1\nfile f = 'abc'\n[assert]\ncontents f : run {slow} {tag}\n",
 'assert-file-matcher-run': "[setup]\ntimeout = 1\nfile f = 'abc'\n[assert]\nexists f : run {slow} {tag}\n",
 'assert-transformer':  "[setup]\ntimeout = 1\nfile f = 'abc'\n[assert]\ncontents f : -transformed-by run {slow} {tag}\n is-empty\n",
 'cleanup-run':         "[setup]\ntimeout = 1\n[cleanup]\nrun {slow} {tag}\n",
 'timeout-set-after':   "[setup]\nrun {slow} {tag}\ntimeout = 1\n",   # must NOT be killed (default 60)
 'timeout-none-then-1': "[setup]\ntimeout = none\ntimeout = 1\nrun {slow} {tag}\n",
}
def one(item):
    tag, tmpl = item
    p = os.path.join(home, tag + '.case'); marker = os.path.join(d, 'cleanup-' + tag)
    text = tmpl.format(slow=slow, tag=tag)
    if '[cleanup]' not in text: text += "[cleanup]\n$ touch %s\n" % marker
    else: text += "$ touch %s\n" % marker
    open(p, 'w').write(text)
    tmp = os.path.join(d, 'tmp-' + tag); os.mkdir(tmp)
    t0 = time.time()
    r = subprocess.run(['/venv/bin/python', '-W', 'ignore', '/repo/src/default-main-program-runner.py', p], capture_output=True, text=True, env=dict(os.environ, TMPDIR=tmp))
    dt = time.time() - t0
    pidf = os.path.join(d, 'pid-' + tag); alive = None
    if os.path.exists(pidf):
        pid = int(open(pidf).read()); alive = os.path.exists('/proc/%d' % pid)
    return tag, r.returncode, r.stdout.strip(), round(dt, 1), 'cleanup-ran' if os.path.exists(marker) else 'NO-CLEANUP', 'sds-left=%d' % len(os.listdir(tmp)), 'child-alive=%s' % alive, (r.stderr.split('\n')[0:2])
with ThreadPoolExecutor(16) as ex:
    for res in ex.map(one, PLACES.items()): print(res)
shutil.rmtree(d)
