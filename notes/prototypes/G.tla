---- MODULE G ----
\* Throwaway prototype: documented grammar as recursive descent in TLA+.
EXTENDS Naturals, Sequences, TLC, Json, FiniteSets, SequencesExt
\* tokens: "T","F" leaves; "!" ; "&&" ; "||" ; "(" ; ")"
Tok == {"T", "F", "!", "&&", "||", "(", ")"}
ERR == [err |-> TRUE]
IsErr(r) == "err" \in DOMAIN r
\* result: [t |-> tree, rest |-> tokens]
Leaf(x) == [op |-> "leaf", v |-> x]
Not(a) == [op |-> "not", a |-> a]
Nary(o, as) == [op |-> o, as |-> as]

RECURSIVE POr(_), PAnd(_), PPrim(_), POrTail(_, _), PAndTail(_, _)
PPrim(ts) ==
  IF ts = <<>> THEN ERR
  ELSE LET h == Head(ts) IN
    IF h \in {"T", "F"} THEN [t |-> Leaf(h), rest |-> Tail(ts)]
    ELSE IF h = "!" THEN LET r == PPrim(Tail(ts)) IN IF IsErr(r) THEN ERR ELSE [t |-> Not(r.t), rest |-> r.rest]
    ELSE IF h = "(" THEN LET r == POr(Tail(ts)) IN
         IF IsErr(r) THEN ERR ELSE IF r.rest # <<>> /\ Head(r.rest) = ")" THEN [t |-> r.t, rest |-> Tail(r.rest)] ELSE ERR
    ELSE ERR
PAndTail(acc, ts) ==
  IF ts # <<>> /\ Head(ts) = "&&" THEN LET r == PPrim(Tail(ts)) IN IF IsErr(r) THEN ERR ELSE PAndTail(Append(acc, r.t), r.rest)
  ELSE [t |-> IF Len(acc) = 1 THEN acc[1] ELSE Nary("and", acc), rest |-> ts]
PAnd(ts) == LET r == PPrim(ts) IN IF IsErr(r) THEN ERR ELSE PAndTail(<<r.t>>, r.rest)
POrTail(acc, ts) ==
  IF ts # <<>> /\ Head(ts) = "||" THEN LET r == PAnd(Tail(ts)) IN IF IsErr(r) THEN ERR ELSE POrTail(Append(acc, r.t), r.rest)
  ELSE [t |-> IF Len(acc) = 1 THEN acc[1] ELSE Nary("or", acc), rest |-> ts]
POr(ts) == LET r == PAnd(ts) IN IF IsErr(r) THEN ERR ELSE POrTail(<<r.t>>, r.rest)

Parse(ts) == LET r == POr(ts) IN IF IsErr(r) THEN [op |-> "err"] ELSE IF r.rest # <<>> THEN [op |-> "err"] ELSE r.t

RECURSIVE Eval(_)
RECURSIVE EvalAnd(_, _), EvalOr(_, _)
\* returns [v |-> BOOLEAN, log |-> seq of leaves evaluated]
Eval(t) == CASE t.op = "leaf" -> [v |-> t.v = "T", log |-> <<t.v>>]
             [] t.op = "not" -> LET r == Eval(t.a) IN [v |-> ~r.v, log |-> r.log]
             [] t.op = "and" -> EvalAnd(t.as, 1)
             [] t.op = "or" -> EvalOr(t.as, 1)
EvalAnd(as, j) == LET r == Eval(as[j]) IN
   IF ~r.v \/ j = Len(as) THEN r ELSE LET s == EvalAnd(as, j + 1) IN [v |-> s.v, log |-> r.log \o s.log]
EvalOr(as, j) == LET r == Eval(as[j]) IN
   IF r.v \/ j = Len(as) THEN r ELSE LET s == EvalOr(as, j + 1) IN [v |-> s.v, log |-> r.log \o s.log]

Strs(n) == UNION {[1..k -> Tok] : k \in 1..n}
Denote(ts) == LET p == Parse(ts) IN IF p.op = "err" THEN [r |-> "ERR"] ELSE LET e == Eval(p) IN [r |-> IF e.v THEN "T" ELSE "F", log |-> e.log]
N == 6
ASSUME PrintT(<<"strings", Cardinality(Strs(N))>>)
ASSUME ndJsonSerialize("/tmp/t1/g.ndjson", SetToSeq({[ts |-> ts, d |-> Denote(ts)] : ts \in Strs(N)}))
VARIABLE x
Init == x = 0
Next == x' = x
====
