"""Throwaway probe for C12: accepted relativity options per argument role vs the manual; resolution roots."""
import io, sys, warnings, os, tempfile, shutil, collections
warnings.simplefilter('ignore')
from exactly_lib.cli_default.default_main_program_setup import default_main_program
from exactly_lib.util.file_utils.std import StdOutputFiles
mp = default_main_program()
d = tempfile.mkdtemp(); tempfile.tempdir = os.path.join(d, 'tmp'); os.mkdir(tempfile.tempdir)
home = os.path.join(d, 'home'); acthome = os.path.join(d, 'acthome'); os.mkdir(home); os.mkdir(acthome)
OUT = os.path.join(d, 'out.txt')
def run_text(text):
    p = os.path.join(home, 'c.case'); open(p, 'w').write(text)
    if os.path.exists(OUT): os.remove(OUT)
    out, err = io.StringIO(), io.StringIO()
    rc = mp.execute(['--keep', p], StdOutputFiles(out, err))
    sds = out.getvalue().strip(); v = err.getvalue().splitlines()[0] if err.getvalue() else ''
    pr = open(OUT).read().strip() if os.path.exists(OUT) else None
    if sds: shutil.rmtree(sds)
    return v, sds, pr, err.getvalue()
OPTS = ['-rel-home', '-rel-act-home', '-rel-act', '-rel-tmp', '-rel-result', '-rel-cd', '-rel-here']
ROLES = {  # role -> (template with {p}, documented accepted set, phase)
 'file dest':     ('file {p}', {'-rel-act', '-rel-tmp', '-rel-cd'}, 'setup'),
 'dir dest':      ('dir {p}', {'-rel-act', '-rel-tmp', '-rel-cd'}, 'setup'),
 'cd':            ('cd {p}', {'-rel-act', '-rel-tmp', '-rel-cd'}, 'setup'),
 'copy dest':     ('copy -rel-home exists.txt {p}', {'-rel-act', '-rel-tmp', '-rel-cd'}, 'setup'),
 'copy src':      ('copy {p}', {'-rel-home', '-rel-act-home', '-rel-act', '-rel-tmp', '-rel-cd'}, 'setup'),
 'contents':      ('contents {p} : is-empty', {'-rel-home', '-rel-act-home', '-rel-act', '-rel-tmp', '-rel-cd'}, 'assert'),
 'exists':        ('exists {p}', {'-rel-home', '-rel-act-home', '-rel-act', '-rel-tmp', '-rel-cd'}, 'assert'),
 'dir-contents':  ('dir-contents {p} : is-empty', {'-rel-act-home', '-rel-act', '-rel-tmp', '-rel-cd'}, 'assert'),
 'def path':      ('def path PP = {p}', set(OPTS), 'setup'),
 'contents-of':   ('file t.txt = -contents-of {p}', {'-rel-home', '-rel-act-home', '-rel-act', '-rel-tmp', '-rel-cd'}, 'setup'),
}
bad = []
for role, (tmpl, acc, phase) in ROLES.items():
    for o in OPTS:
        v, sds, pr, err = run_text('[%s]\n%s\n' % (phase, tmpl.format(p=o + ' some-name')))
        is_syntax = v == 'SYNTAX_ERROR'
        if is_syntax != (o not in acc): bad.append((role, o, v, err.split('\n')[5:9]))
print('acceptance mismatches:', len(bad)); [print('   ', b) for b in bad]
# resolution roots: a path symbol rendered through a probe
open(os.path.join(home, 'exists.txt'), 'w').write('')
PROBE = "% sh -c 'echo \"$1\" >> " + OUT + "' sh"
exp_root = {'-rel-home': home, '-rel-act-home': acthome, '-rel-act': '{sds}/act', '-rel-tmp': '{sds}/tmp', '-rel-result': '{sds}/result', '-rel-here': home}
rbad = []
for o, root in exp_root.items():
    text = "[conf]\nact-home = ../acthome\n[setup]\ndef path P = %s a/b\ndef path Q = -rel P c\ndef path R = @[Q]@/d\n%s @[R]@\n" % (o, PROBE)
    v, sds, pr, err = run_text(text)
    exp = root.format(sds=sds) + '/a/b/c/d'
    if not (v == 'PASS' and os.path.realpath(pr) == os.path.realpath(exp)): rbad.append((o, v, pr, exp))
# -rel-cd resolved at use
text = "[setup]\ndef path P = -rel-cd x\ndir sub\n%s @[P]@\ncd sub\n%s @[P]@\n" % (PROBE, PROBE)
v, sds, pr, err = run_text(text); print('rel-cd at use:', v, pr.replace(sds, 'SDS').split('\n'))
print('resolution mismatches:', rbad)
shutil.rmtree(d)
