"""Throwaway probe: here-document bodies and :> text-until-eol."""
import io, sys, warnings, os, tempfile, itertools, time, collections
warnings.simplefilter('ignore')
from exactly_lib.cli_default.default_main_program_setup import default_main_program
from exactly_lib.util.file_utils.std import StdOutputFiles
mp = default_main_program()
d = tempfile.mkdtemp(); tempfile.tempdir = d
def run_text(text):
    p = os.path.join(d, 'c.case'); open(p, 'w').write(text)
    out, err = io.StringIO(), io.StringIO()
    rc = mp.execute(['--keep', p], StdOutputFiles(out, err))
    sds = out.getvalue().strip()
    verdict = err.getvalue().splitlines()[0] if err.getvalue() else ''
    res = {}
    if sds:
        for n in ('f.txt', 'g.txt'):
            q = os.path.join(sds, 'act', n)
            if os.path.exists(q): res[n] = open(q, newline='').read()
        import shutil; shutil.rmtree(sds)
    return verdict, res
LINES = ['a', '', ' ', "it's", 'say "x', '# c', '[setup]', 'EOF ', ' EOF', 'EOFx', '@[S]@', "'@[S]@'", '<<EOF', 'a  b ', '\\', 'file g.txt']
bad = collections.defaultdict(list); n = 0; t0 = time.time()
for k in range(0, 0):
    for body in itertools.product(LINES, repeat=k):
        text = "[setup]\ndef string S = VAL\nfile f.txt = <<EOF\n" + ''.join(l + '\n' for l in body) + "EOF\nfile g.txt = after\n"
        exp = ''.join(l.replace('@[S]@', 'VAL') + '\n' for l in body)
        verdict, res = run_text(text); n += 1
        if not (verdict == 'PASS' and res.get('f.txt') == exp and res.get('g.txt') == 'after'):
            bad['heredoc'].append((body, verdict, res))
TAILS = ['a', 'a  b', " a 'b' ", 'a "b', "it's", 'a # c', '#', 'a @[S]@ b', "'@[S]@'", 'a )', '( a', 'a \\', '-x', '<<EOF', 'a' * 3 + '\t' + 'b']
for tail in TAILS:
    text = "[setup]\ndef string S = VAL\nfile f.txt = :> " + tail + "\nfile g.txt = after\n"
    exp = tail.strip().replace('@[S]@', 'VAL')
    verdict, res = run_text(text); n += 1
    if not (verdict == 'PASS' and res.get('f.txt') == exp and res.get('g.txt') == 'after'):
        bad['eol'].append((tail, exp, verdict, res))
print('ran', n, 'in', round(time.time() - t0, 1))
for k, v in bad.items():
    print('CLASS', k, len(v))
    for x in v[:25]: print('    ', x)
import shutil; shutil.rmtree(d)
