"""Throwaway mini-fuzz for C18: token-level mutations of corpus cases; unprivileged; no real processes."""
import os, sys, io, warnings, tempfile, pkgutil, importlib, random, glob, re, collections, time, traceback, shutil, signal
warnings.simplefilter('ignore')
import exactly_lib
for m in pkgutil.walk_packages(exactly_lib.__path__, 'exactly_lib.'):
    try: importlib.import_module(m.name)
    except Exception: pass
import difflib, filecmp, shlex, subprocess, glob, fnmatch, xml.etree.ElementTree, datetime, platform, stat, types, encodings.utf_8, encodings.ascii, encodings.latin_1, encodings.idna, unicodedata, sre_parse, sre_compile, ast, tokenize, token, keyword, linecache, textwrap, string, numbers, decimal, fractions, math, operator, functools, itertools, copy, pprint, locale
seeds = []
for root in ('/repo/test/exactly-cases', '/repo/examples', '/repo/err-msg-tests'):
    for p in glob.glob(root + '/**/*.case', recursive=True):
        try: seeds.append((p, open(p).read()))
        except Exception: pass
work = '/tmp/x/fz'; shutil.rmtree(work, ignore_errors=True); os.makedirs(work); os.chmod(work, 0o777)
# no real processes
from exactly_lib.util.process_execution import process_executor as _pe
_pe.subprocess.call = lambda *a, **k: 0
os.setgroups([]); os.setgid(65534); os.setuid(65534)
os.environ['HOME'] = work; os.environ['TMPDIR'] = work; tempfile.tempdir = work; os.chdir(work)
from exactly_lib.cli_default.default_main_program_setup import default_main_program
from exactly_lib.util.file_utils.std import StdOutputFiles
mp = default_main_program()
class TO(Exception): pass
def on_alarm(*a): raise TO()
signal.signal(signal.SIGALRM, on_alarm)
def run_text(text):
    p = os.path.join(work, 'c.case'); open(p, 'w').write(text)
    fo = open(os.path.join(work, 'o.txt'), 'w+'); fe = open(os.path.join(work, 'e.txt'), 'w+')
    try:
        signal.alarm(5)
        rc = mp.execute([p], StdOutputFiles(fo, fe))
        signal.alarm(0)
        fo.seek(0); fe.seek(0); return rc, fo.read().strip(), fe.read()
    except TO: return 'TIMEOUT', '', ''
    except BaseException as ex:
        signal.alarm(0); return 'EXC', type(ex).__name__, traceback.format_exc()[-600:]
    finally:
        fo.close(); fe.close()
        for x in os.listdir(work):
            if x.startswith('exactly-'): shutil.rmtree(os.path.join(work, x), ignore_errors=True)
EXTREME = ['0', '-1', '1//0', '1/0', '1.5', "'a'", '()', '2**70', '1e3', 'None', '', '(', ')', '[', '*', '\\', '\\6', '(?P<a', '[a-', 'a{2,1}', '+', '@[UNDEF]@', '@[EXACTLY_ACT]@', '"', "'", '<<EOF', ':>', '-rel-tmp', '-rel', '!', '&&', '||', '=', ':', '{', '}', '-full', 'é', '\t']
def mutate(rnd, text):
    toks = re.findall(r'\s+|\S+', text)
    idx = [i for i, t in enumerate(toks) if not t.isspace()]
    if not idx: return text
    for _ in range(rnd.choice((1, 1, 2, 3))):
        i = rnd.choice(idx); op = rnd.choice(('del', 'dup', 'rep', 'swap', 'trunc', 'quote'))
        if op == 'del': toks[i] = ''
        elif op == 'dup': toks[i] = toks[i] + ' ' + toks[i]
        elif op == 'rep': toks[i] = rnd.choice(EXTREME)
        elif op == 'swap':
            j = rnd.choice(idx); toks[i], toks[j] = toks[j], toks[i]
        elif op == 'trunc':
            s = ''.join(toks); return s[:rnd.randrange(len(s) + 1)]
        else: toks[i] = rnd.choice('"\'') + toks[i]
    return ''.join(toks)
rnd = random.Random(int(sys.argv[1]) if len(sys.argv) > 1 else 1); N = int(sys.argv[2]) if len(sys.argv) > 2 else 4000
stats = collections.Counter(); findings = collections.defaultdict(list); t0 = time.time()
for k in range(N):
    path, seed = rnd.choice(seeds)
    text = mutate(rnd, seed)
    rc, out, err = run_text(text)
    key = out.split('\n')[0] if rc not in ('EXC', 'TIMEOUT') else rc + ':' + out
    stats[key] += 1
    if rc in ('EXC', 'TIMEOUT') or 'INTERNAL_ERROR' in out:
        last = [l for l in err.strip().split('\n') if l.strip()][-1:] if err else ['']
        sig = (key, last[0][:110])
        if len(findings[sig]) < 2: findings[sig].append((os.path.basename(path), text[-300:]))
print('ran', N, 'in', round(time.time() - t0, 1), dict(stats))
for sig, ex in findings.items():
    print('==', sig)
    for e in ex[:1]: print('     seed', e[0], '| tail:', repr(e[1][-160:]))
