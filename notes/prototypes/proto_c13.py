"""Throwaway differential probe for C13: filter LINE-MATCHER and -line-nums vs per-line reference."""
import io, sys, warnings, os, tempfile, itertools, time, collections, random
warnings.simplefilter('ignore')
from exactly_lib.cli_default.default_main_program_setup import default_main_program
from exactly_lib.util.file_utils.std import StdOutputFiles
mp = default_main_program()
d = tempfile.mkdtemp(); tempfile.tempdir = d
N = 5
open(os.path.join(d, 'in.txt'), 'w').write(''.join('L%d\n' % i for i in range(1, N + 1)))
def run_expr(tr):
    p = os.path.join(d, 'c.case')
    open(p, 'w').write("[setup]\nfile o.txt = -contents-of -rel-home in.txt -transformed-by\n %s\n" % tr)
    out, err = io.StringIO(), io.StringIO()
    rc = mp.execute(['--keep', p], StdOutputFiles(out, err))
    sds = out.getvalue().strip(); v = err.getvalue().splitlines()[0] if err.getvalue() else ''
    r = None
    if sds:
        q = os.path.join(sds, 'act', 'o.txt')
        if os.path.exists(q): r = [int(l[1:]) for l in open(q).read().split()]
        import shutil; shutil.rmtree(sds)
    return v, r
OPS = {'==': lambda a, b: a == b, '!=': lambda a, b: a != b, '<': lambda a, b: a < b, '<=': lambda a, b: a <= b, '>': lambda a, b: a > b, '>=': lambda a, b: a >= b}
# integer-matcher expressions: (syntax, predicate)
def int_leaves():
    for op, f in OPS.items():
        for k in (0, 1, 2, 4, 5, 6):
            yield ('%s %d' % (op, k), (lambda f, k: lambda n: f(n, k))(f, k))
def combos(leaves, depth):
    L = list(leaves)
    yield from L
    if depth == 0: return
    sub = random.sample(L, 14)
    for (s1, f1), (s2, f2) in itertools.product(sub, sub):
        yield ('( %s && %s )' % (s1, s2), (lambda f1, f2: lambda n: f1(n) and f2(n))(f1, f2))
        yield ('( %s || %s )' % (s1, s2), (lambda f1, f2: lambda n: f1(n) or f2(n))(f1, f2))
    for s1, f1 in L:
        yield ('! %s' % s1, (lambda f1: lambda n: not f1(n))(f1))
random.seed(3)
ints = list(combos(int_leaves(), 1))
# line matchers: line-num IM ; negation ; contents leaf (accepts odd lines: L1,L3,L5 via regex)
lms = [('line-num %s' % s, f) for s, f in ints]
lms += [('! line-num %s' % s, (lambda f: lambda n: not f(n))(f)) for s, f in ints]
odd = ("contents matches '[135]'", lambda n: n in (1, 3, 5))
sub = random.sample(lms, 30)
for (s1, f1) in sub:
    lms.append(('( %s && %s )' % (s1, odd[0]), (lambda f1: lambda n: f1(n) and odd[1](n))(f1)))
    lms.append(('! ( %s || %s )' % (s1, odd[0]), (lambda f1: lambda n: not (f1(n) or odd[1](n)))(f1)))
    lms.append(('! ( %s && ! %s )' % (odd[0], s1), (lambda f1: lambda n: not (odd[1](n) and not f1(n)))(f1)))
bad = collections.defaultdict(list); n = 0; t0 = time.time()
for s, f in lms:
    exp = [i for i in range(1, N + 1) if f(i)]
    v, r = run_expr('filter ' + s); n += 1
    if not (v == 'PASS' and r == exp):
        key = 'neg-of-int-level-binop' if ('! line-num (' in s or 'line-num ! (' in s) else 'other'
        bad[key].append((s, exp, v, r))
# ranges
def rng_ref(spec, N):
    def tr(k): return k if k >= 0 else N + 1 + k
    kind, a, b = spec
    if kind == 'single': lo = hi = tr(a)
    elif kind == 'upto': lo, hi = 1, tr(b)
    elif kind == 'from': lo, hi = tr(a), N
    else: lo, hi = tr(a), tr(b)
    return set(i for i in range(1, N + 1) if lo <= i <= hi)
def rng_syn(spec):
    kind, a, b = spec
    return {'single': '%d' % a, 'upto': ':%d' % b, 'from': '%d:' % a, 'range': '%d:%d' % (a, b)}[kind] if True else None
B = range(-N - 2, N + 3)
specs = [('single', a, 0) for a in B] + [('upto', 0, b) for b in B] + [('from', a, 0) for a in B] + [('range', a, b) for a in B for b in B]
def syn(spec):
    kind, a, b = spec
    if kind == 'single': return str(a)
    if kind == 'upto': return ':%d' % b
    if kind == 'from': return '%d:' % a
    return '%d:%d' % (a, b)
for spec in specs:
    exp = sorted(rng_ref(spec, N)); v, r = run_expr('filter -line-nums ' + syn(spec)); n += 1
    if not (v == 'PASS' and r == exp): bad['range1'].append((syn(spec), exp, v, r))
for _ in range(1500):
    ss = random.sample(specs, random.choice((2, 3, 4)))
    exp = sorted(set().union(*[rng_ref(s, N) for s in ss])); v, r = run_expr('filter -line-nums ' + ' '.join(syn(s) for s in ss)); n += 1
    if not (v == 'PASS' and r == exp): bad['rangeN'].append((' '.join(syn(s) for s in ss), exp, v, r))
print('ran', n, 'in', round(time.time() - t0, 1))
for k, v in bad.items():
    print('CLASS', k, len(v))
    for x in v[:10]: print('    ', x)
import shutil; shutil.rmtree(d)
