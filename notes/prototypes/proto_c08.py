import io, sys, warnings, os, tempfile
warnings.simplefilter('ignore')
from exactly_lib.cli_default.default_main_program_setup import default_main_program
from exactly_lib.util.file_utils.std import StdOutputFiles
mp = default_main_program()
d = tempfile.mkdtemp(); tempfile.tempdir = d
OUT = os.path.join(d, 'out.txt')
def run_text(text, args=()):
    p = os.path.join(d, 'c.case'); open(p, 'w').write(text)
    if os.path.exists(OUT): os.remove(OUT)
    out, err = io.StringIO(), io.StringIO()
    rc = mp.execute(list(args) + [p], StdOutputFiles(out, err))
    e = ' | '.join([l.strip() for l in err.getvalue().splitlines() if l.strip()][:5])
    probe = open(OUT).read() if os.path.exists(OUT) else None
    return out.getvalue().strip(), probe, e[:160]
P = "% sh -c 'printf \"%s\\n\" \"$@\" >> " + OUT + "' sh"
cases = {
 'ref later in same phase':   "[setup]\n" + P + " @[S]@\ndef string S = v\n",
 'def in setup, use in act':  "[setup]\ndef string S = v\n[act]\n" + P + " @[S]@\n",
 'def in assert, use in act': "[act]\n" + P + " @[S]@\n[assert]\ndef string S = v\n",
 'def in setup use cleanup':  "[setup]\ndef string S = v\n[cleanup]\n" + P + " @[S]@\n",
 'def in cleanup use assert': "[assert]\n" + P + " @[S]@\n[cleanup]\ndef string S = v\n",
 'file order irrelevant':     "[cleanup]\n" + P + " @[S]@\n[setup]\ndef string S = v\n",
 'duplicate def':             "[setup]\ndef string S = v\n[assert]\ndef string S = w\n",
 'duplicate of builtin':      "[setup]\ndef string EXACTLY_ACT = v\n",
 'duplicate of builtin NL':   "[setup]\ndef string NEW_LINE = v\n",
 'list in string':            "[setup]\ndef list L = a 'b c'  d\ndef string S = \"<@[L]@>\"\n" + P + " @[S]@ @[L]@ \"@[L]@\"\n",
 'empty list in string':      "[setup]\ndef list L = \ndef string S = \"<@[L]@>\"\n" + P + " @[S]@ @[L]@ x\n",
 'list splice in list':       "[setup]\ndef list L = a b\ndef list M = x @[L]@ y\n" + P + " @[M]@\n",
 'path in string':            "[setup]\ndef path Q = -rel-tmp a/b\ndef string S = \"p=@[Q]@\"\n" + P + " @[S]@\n",
 'matcher as string':         "[setup]\ndef text-matcher M = is-empty\ndef string S = @[M]@\n",
 'string as matcher':         "[setup]\ndef string S = is-empty\nfile f\n[assert]\ncontents f : S\n",
 'indirect int ok':           "[setup]\ndef string A = 1\ndef string B = @[A]@+1\n[assert]\nexit-code == @[B]@-2\n",
 'indirect int via list':     "[setup]\ndef list A = 1\ndef string B = @[A]@\n[assert]\nexit-code == @[B]@-1\n",
 'direct int via list':       "[setup]\ndef list A = 0\n[assert]\nexit-code == @[A]@\n",
 'path comp via path-string': "[setup]\ndef path Q = -rel-tmp a\ndef string S = @[Q]@\nfile @[S]@/x\n",
 'rel SYM not a path':        "[setup]\ndef string S = a\nfile -rel S x\n",
 'rel SYM undefined':         "[setup]\nfile -rel NOPE x\n",
 'plain ref to wrong type':   "[setup]\ndef line-matcher LM = constant true\nfile f\n[assert]\ncontents f : LM\n",
 'program ref':               "[setup]\ndef program PG = " + P[2:] + " first\nrun @ PG second\n",
 'program ref wrong type':    "[setup]\ndef string PG = x\nrun @ PG second\n",
 'actor refs setup symbol':   "[conf]\nactor = file % sh\n[setup]\ndef string A = arg\nfile s.sh = \"echo $1 >> " + OUT + "\"\n[act]\n-rel-act s.sh @[A]@\n",
}
for name, text in cases.items():
    print('%-28s %s' % (name, run_text(text)))
import shutil; shutil.rmtree(d)
