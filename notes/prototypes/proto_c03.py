"""Throwaway probe for C03: one defective instruction anywhere => exit 65, no effects, no sandbox."""
import io, sys, warnings, os, tempfile, time, collections
warnings.simplefilter('ignore')
from exactly_lib.cli_default.default_main_program_setup import default_main_program
from exactly_lib.util.file_utils.std import StdOutputFiles
mp = default_main_program()
d = tempfile.mkdtemp(); tempfile.tempdir = os.path.join(d, 'tmp'); os.mkdir(tempfile.tempdir)
home = os.path.join(d, 'home'); os.mkdir(home); MARK = os.path.join(d, 'marks'); os.mkdir(MARK)
open(os.path.join(home, 'exists.txt'), 'w').write('x\n')
def run(argv):
    out, err = io.StringIO(), io.StringIO()
    rc = mp.execute(argv, StdOutputFiles(out, err)); return rc, out.getvalue().strip(), err.getvalue()
def mark(name): return "$ touch %s/%s" % (MARK, name)
PHASES = ['setup', 'before-assert', 'assert', 'cleanup']
def base(phase, pos, defect_line, act='$ touch %s/act' % MARK, conf=''):
    """3 effectful instructions per phase; defect inserted at (phase, pos)"""
    parts = ['[conf]\n' + conf] if conf else []
    for ph in PHASES:
        lines = [mark('%s-%d' % (ph, i)) for i in range(3)]
        if ph == 'setup': lines.insert(0, 'def string DEFINED = v'); lines.append('file created.txt = x')
        if ph == phase: lines.insert(pos + (1 if ph == 'setup' else 0), defect_line)
        parts.append('[%s]\n%s\n' % (ph, '\n'.join(lines)))
        if ph == 'setup': parts.append('[act]\n%s\n' % (defect_line if phase == 'act' else act))
    return ''.join(parts)
DEFECTS = {
 'syntax: bad args':        ('file', 'SYNTAX_ERROR'),
 'syntax: unknown instr':   ('no-such-instruction x', 'SYNTAX_ERROR'),
 'syntax: unterminated q':  ("file f = 'abc", 'SYNTAX_ERROR'),
 'undefined symbol':        ('file u.txt = @[UNDEFINED]@', 'VALIDATION_ERROR'),
 'defined later':           ('file u.txt = @[LATER]@', 'VALIDATION_ERROR'),
 'wrong type':              ('def text-matcher TM = DEFINED', 'VALIDATION_ERROR'),
 'illegal rel via symbol':  ('file -rel HOME_PATH x.txt', 'VALIDATION_ERROR'),
 'missing home file':       ('copy -rel-home missing.txt', 'VALIDATION_ERROR'),
 'bad integer':             ('timeout = 1.5', 'VALIDATION_ERROR'),
 'bad regex':               ("file r.txt = -contents-of -rel-home exists.txt -transformed-by replace '(' x", 'VALIDATION_ERROR'),
}
bad = collections.defaultdict(list); n = 0; t0 = time.time()
def check(name, text, exp, args=()):
    global n
    for f in os.listdir(MARK): os.remove(os.path.join(MARK, f))
    p = os.path.join(home, 'c.case'); open(p, 'w').write(text)
    before = sorted(os.listdir(home))
    rc, out, err = run(list(args) + [p]); n += 1
    ident = (out or err.splitlines()[0] if (out or err) else '')
    marks = sorted(os.listdir(MARK)); sds = os.listdir(tempfile.tempdir); after = sorted(os.listdir(home))
    ok = rc == 65 and exp in (out + err.split('\n')[0]) and not marks and not sds and before == after
    if not ok: bad[name].append((args, rc, out, err.split('\n')[0], marks, sds))
    for s in sds:
        import shutil; shutil.rmtree(os.path.join(tempfile.tempdir, s), ignore_errors=True)
for dname, (line, exp) in DEFECTS.items():
    for phase in PHASES:
        for pos in (0, 1, 3):
            text = base(phase, pos, line)
            if dname == 'defined later': text += '[cleanup]\ndef string LATER = v\n'
            if dname == 'illegal rel via symbol': text = text.replace('def string DEFINED = v', 'def string DEFINED = v\ndef path HOME_PATH = -rel-home sub')
            if dname == 'defined later' and phase == 'cleanup' and pos == 3: pass
            for args in ((), ('--keep',), ('--act',)):
                check(dname + ' @' + phase, text, exp, args)
# act phase defects
for actor_conf, act_line, exp in [
    ('', "'unterminated", 'SYNTAX_ERROR'), ('', 'missing-program arg', 'VALIDATION_ERROR'), ('', '% sh @[UNDEFINED]@', 'VALIDATION_ERROR'),
    ('actor = file % sh', 'missing-file.sh', 'VALIDATION_ERROR'), ('actor = source % sh', 'echo @[UNDEFINED]@', None),
]:
    if exp is None: continue
    for args in ((), ('--keep',), ('--act',)):
        check('act: ' + act_line, base('act', 0, act_line, conf=actor_conf), exp, args)
# sanity: the base case itself runs everything
for f in os.listdir(MARK): os.remove(os.path.join(MARK, f))
p = os.path.join(home, 'ok.case'); open(p, 'w').write(base('none', 0, ''))
print('base case:', run([p])[:2], sorted(os.listdir(MARK)))
print('ran', n, 'in', round(time.time() - t0, 1))
for k, v in bad.items():
    print('BAD', k, len(v)); [print('    ', x) for x in v[:4]]
import shutil; shutil.rmtree(d)
