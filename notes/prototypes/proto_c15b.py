"""Throwaway probe for C15 population: FILE-LIST -> tree, vs a Python reference."""
import io, sys, warnings, os, tempfile, itertools, time, collections, random, shutil
warnings.simplefilter('ignore')
from exactly_lib.cli_default.default_main_program_setup import default_main_program
from exactly_lib.util.file_utils.std import StdOutputFiles
mp = default_main_program()
d = tempfile.mkdtemp(); tempfile.tempdir = os.path.join(d, 'tmp'); os.mkdir(tempfile.tempdir)
home = os.path.join(d, 'home'); os.mkdir(home)
def run_text(text):
    p = os.path.join(home, 'c.case'); open(p, 'w').write(text)
    out, err = io.StringIO(), io.StringIO()
    rc = mp.execute(['--keep', p], StdOutputFiles(out, err))
    sds = out.getvalue().strip(); v = err.getvalue().splitlines()[0] if err.getvalue() else ''
    tree = None
    if sds:
        root = os.path.join(sds, 'act', 'D')
        if os.path.isdir(root):
            tree = {}
            for dp, dns, fns in os.walk(root):
                rel = os.path.relpath(dp, root)
                for x in dns: tree[os.path.normpath(os.path.join(rel, x))] = 'd'
                for x in fns: tree[os.path.normpath(os.path.join(rel, x))] = open(os.path.join(dp, x)).read()
        shutil.rmtree(sds)
    return v, tree, err.getvalue()
NAMES = ['a', 'b', 'a/c', '../x', '/abs']
class Clash(Exception): pass
def apply(tree, prefix, entries):
    for e in entries:
        kind, name, mod, arg = e
        if name.startswith('/') or '..' in name.split('/'): raise ValueError('invalid')
        p = os.path.normpath(os.path.join(prefix, name)) if prefix else name
        # intermediate dirs
        parts = p.split('/')
        for i in range(1, len(parts)):
            anc = '/'.join(parts[:i])
            if anc in tree and tree[anc] != 'd': raise Clash()
            tree.setdefault(anc, 'd')
        if kind == 'file':
            if mod == '+=':
                if p not in tree or tree[p] == 'd': raise Clash()
                tree[p] = tree[p] + arg
            else:
                if p in tree: raise Clash()
                tree[p] = arg if mod == '=' else ''
        else:
            if mod == '+=':
                if p not in tree or tree[p] != 'd': raise Clash()
            else:
                if p in tree: raise Clash()
                tree[p] = 'd'
            if mod in ('=', '+='): apply(tree, p, arg)
def render(entries, ind=1):
    out = []
    for kind, name, mod, arg in entries:
        pad = '  ' * ind
        if kind == 'file': out.append(pad + 'file %s' % name + (' %s "%s"' % (mod, arg) if mod else ''))
        else: out.append(pad + 'dir %s' % name + ((' %s {\n%s\n%s}' % (mod, render(arg, ind + 1), pad)) if mod else ''))
    return '\n'.join(out)
def gen_entries(rnd, depth=0):
    es = []
    for _ in range(rnd.choice((1, 2, 3))):
        name = rnd.choice(NAMES if rnd.random() < 0.15 else NAMES[:3])
        if rnd.random() < 0.6 or depth >= 1:
            mod = rnd.choice((None, '=', '+=')); es.append(('file', name, mod, rnd.choice(('x', 'y')) if mod else None))
        else:
            mod = rnd.choice((None, '=', '+=')); es.append(('dir', name, mod, gen_entries(rnd, depth + 1) if mod else None))
    return es
rnd = random.Random(7); bad = collections.defaultdict(list); n = 0; t0 = time.time()
for _ in range(3000):
    es = gen_entries(rnd)
    try:
        t = {}; apply(t, '', es); exp = ('PASS', t)
    except Clash: exp = ('HARD_ERROR', None)
    except ValueError: exp = ('VALIDATION_ERROR', None)
    text = "[setup]\ndir D = {\n%s\n}\n" % render(es)
    v, tree, err = run_text(text); n += 1
    ok = (v == exp[0]) and (exp[1] is None or tree == exp[1])
    if not ok: bad[exp[0] + '->' + v].append((render(es), exp, v, tree, err.split('\n')[1:6]))
print('ran', n, 'in', round(time.time() - t0, 1))
for k, v in bad.items():
    print('BAD', k, len(v)); [print('    ', x) for x in v[:3]]
shutil.rmtree(d)
