---- MODULE PX ----
\* Throwaway prototype of PhaseExec: outcome-driven formulation.
EXTENDS Naturals, Sequences, TLC, Json, FiniteSets

CONSTANT MaxN   \* max instructions per phase

Phases == {"conf", "setup", "ba", "assert", "cleanup"}
\* ordered list of forward steps: <<step, phase>>; act steps have phase "act"
Forward == <<
  <<"main","conf">>,
  <<"parse","act">>,
  <<"sym","setup">>, <<"sym","act">>, <<"sym","ba">>, <<"sym","assert">>, <<"sym","cleanup">>,
  <<"pre","setup">>, <<"pre","act">>, <<"pre","ba">>, <<"pre","assert">>, <<"pre","cleanup">>,
  <<"mksds","-">>,
  <<"main","setup">>,
  <<"post","setup">>, <<"post","act">>, <<"post","ba">>, <<"post","assert">>,
  <<"exeinput","act">>, <<"prepare","act">>, <<"execute","act">>,
  <<"main","ba">>, <<"main","assert">> >>
NF == Len(Forward)

Outcomes(step, phase) ==
  CASE step = "sym"      -> {"ok", "ve", "exc"}
    [] step = "parse"    -> {"ok", "syntax", "he_raise", "exc"}
    [] step \in {"pre", "post"} -> {"ok", "ve", "he_ret", "he_raise", "exc"}
    [] step = "exeinput" -> {"ok", "he_ret"}
    [] step \in {"prepare", "execute"} -> {"ok", "he_ret", "he_raise", "exc"}
    [] step = "main" /\ phase = "conf" -> {"ok", "ve", "he_ret", "he_raise", "exc"}
    [] step = "main" /\ phase = "assert" -> {"ok", "fail", "he_ret", "he_raise", "exc"}
    [] step = "main" -> {"ok", "he_ret", "he_raise", "exc"}
    [] OTHER -> {"ok"}

Status(o) == CASE o = "ve" -> "VALIDATION_ERROR" [] o = "syntax" -> "SYNTAX_ERROR"
               [] o \in {"he_ret", "he_raise"} -> "HARD_ERROR" [] o = "fail" -> "FAIL"
               [] o = "exc" -> "INTERNAL_ERROR" [] OTHER -> "PASS"

VARIABLES n,        \* [phase -> count]
          tcStatus, \* PASS / FAIL / SKIP
          actMode,  \* TRUE = --act
          k,        \* index into Forward (or NF+1 = forward done)
          i,        \* instruction index within current step (1-based)
          sds, prev, fail, cfail, inCleanup, ci, log, done, cleanupEntered
vars == <<n, tcStatus, actMode, k, i, sds, prev, fail, cfail, inCleanup, ci, log, done, cleanupEntered>>

Count(step, phase) == IF phase \in {"act", "-"} THEN 1 ELSE n[phase]

Init == /\ n \in [Phases -> 0..MaxN]
        /\ tcStatus \in {"PASS", "FAIL", "SKIP"}
        /\ actMode \in BOOLEAN
        /\ k = 1 /\ i = 1 /\ sds = "none" /\ prev = "-" /\ fail = <<>> /\ cfail = <<>>
        /\ inCleanup = FALSE /\ ci = 1 /\ log = <<>> /\ done = FALSE /\ cleanupEntered = 0

PrevFor(kk) == LET s == Forward[kk] IN
  IF s = <<"execute", "act">> THEN "ACT"
  ELSE IF s = <<"main", "ba">> THEN "BEFORE_ASSERT"
  ELSE IF s = <<"main", "assert">> THEN "ASSERT" ELSE "SETUP"

\* skip steps with zero instructions; skip ba/assert in act mode
RECURSIVE NextK(_)
Skippable(kk) == LET s == Forward[kk] IN
     \/ Count(s[1], s[2]) = 0
     \/ (actMode /\ s \in {<<"main","ba">>, <<"main","assert">>})
NextK(kk) == IF kk > NF THEN kk ELSE IF Skippable(kk) THEN NextK(kk + 1) ELSE kk

EnterCleanup(p) == /\ inCleanup' = TRUE /\ ci' = 1 /\ prev' = p /\ cleanupEntered' = cleanupEntered + 1

StepForward ==
  /\ ~done /\ ~inCleanup /\ k <= NF
  /\ LET s == Forward[k] IN
     IF Skippable(k) THEN
        /\ k' = NextK(k) /\ i' = 1
        /\ UNCHANGED <<n, tcStatus, actMode, sds, prev, fail, cfail, inCleanup, ci, log, done, cleanupEntered>>
     ELSE IF s[1] = "mksds" THEN
        /\ sds' = "live" /\ k' = k + 1 /\ i' = 1
        /\ UNCHANGED <<n, tcStatus, actMode, prev, fail, cfail, inCleanup, ci, log, done, cleanupEntered>>
     ELSE \E o \in Outcomes(s[1], s[2]) :
        /\ log' = Append(log, <<s[1], s[2], i, o>>)
        /\ IF o = "ok" THEN
              /\ IF i < Count(s[1], s[2]) THEN i' = i + 1 /\ k' = k
                 ELSE i' = 1 /\ k' = k + 1
              /\ IF s = <<"main","conf">> /\ i = Count(s[1], s[2]) /\ tcStatus = "SKIP"
                 THEN done' = TRUE ELSE done' = done
              /\ UNCHANGED <<fail, inCleanup, ci, prev, cleanupEntered>>
           ELSE
              /\ fail' = <<s[1], s[2], Status(o)>>
              /\ UNCHANGED <<k, i>>
              /\ IF sds = "live" THEN EnterCleanup(PrevFor(k)) /\ done' = done
                 ELSE done' = TRUE /\ UNCHANGED <<inCleanup, ci, prev, cleanupEntered>>
        /\ UNCHANGED <<n, tcStatus, actMode, sds, cfail>>

\* conf with zero instr and SKIP must also stop: handled by a separate action
SkipAfterEmptyConf ==
  /\ ~done /\ ~inCleanup /\ k = 2 /\ i = 1 /\ tcStatus = "SKIP" /\ log = <<>> /\ n["conf"] = 0
  /\ done' = TRUE
  /\ UNCHANGED <<n, tcStatus, actMode, k, i, sds, prev, fail, cfail, inCleanup, ci, log, cleanupEntered>>

ForwardDone ==
  /\ ~done /\ ~inCleanup /\ k > NF
  /\ EnterCleanup(IF actMode THEN "ACT" ELSE "ASSERT")
  /\ UNCHANGED <<n, tcStatus, actMode, k, i, sds, fail, cfail, log, done>>

CleanupStep ==
  /\ ~done /\ inCleanup
  /\ IF ci > n["cleanup"] THEN
        /\ done' = TRUE /\ sds' = "removed"
        /\ UNCHANGED <<n, tcStatus, actMode, k, i, prev, fail, cfail, inCleanup, ci, log, cleanupEntered>>
     ELSE \E o \in Outcomes("main", "cleanup") :
        /\ log' = Append(log, <<"main", "cleanup", ci, o, prev>>)
        /\ IF o = "ok" THEN ci' = ci + 1 /\ UNCHANGED <<cfail, done, sds>>
           ELSE cfail' = <<"main", "cleanup", Status(o)>> /\ done' = TRUE /\ sds' = "removed" /\ UNCHANGED ci
        /\ UNCHANGED <<n, tcStatus, actMode, k, i, prev, fail, inCleanup, cleanupEntered>>

Next == StepForward \/ SkipAfterEmptyConf \/ ForwardDone \/ CleanupStep
Spec == Init /\ [][Next]_vars

\* ---- properties
CleanupOnce == done => (cleanupEntered = IF sds = "none" THEN 0 ELSE 1)
SdsGone == done => sds \in {"none", "removed"}
NoMainBeforeValidation ==
  \A a \in 1..Len(log) : (log[a][1] = "main" /\ log[a][2] # "conf") =>
     \A b \in a+1..Len(log) : log[b][1] \notin {"sym", "pre", "parse"}
HaltAtFirstFailure ==
  \A a \in 1..Len(log) : log[a][4] # "ok" =>
     \A b \in a+1..Len(log) : log[b][2] = "cleanup" /\ log[b][1] = "main"
Acceptable == IF fail = <<>> /\ cfail = <<>> THEN {<<"-", "-", "PASS">>}
              ELSE (IF fail # <<>> THEN {fail} ELSE {}) \cup (IF cfail # <<>> THEN {cfail} ELSE {})
Export == done => PrintT(<<"CASE", ToJson([n |-> n, st |-> tcStatus, act |-> actMode, log |-> log,
                                           acc |-> Acceptable, sds |-> sds])>>)
====
