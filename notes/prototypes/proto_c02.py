"""Throwaway probe for C02: verdict/exit code/identifier/streams in the three output modes."""
import io, sys, warnings, os, tempfile, shutil
warnings.simplefilter('ignore')
from exactly_lib.cli_default.default_main_program_setup import default_main_program
from exactly_lib.util.file_utils.std import StdOutputFiles
mp = default_main_program()
d = tempfile.mkdtemp(); tempfile.tempdir = os.path.join(d, 'tmp'); os.mkdir(tempfile.tempdir)
home = os.path.join(d, 'home'); os.mkdir(home)
def run(argv):
    import tempfile as _t
    fo = open(os.path.join(d, "o.txt"), "w+"); fe = open(os.path.join(d, "e.txt"), "w+")
    rc = mp.execute(argv, StdOutputFiles(fo, fe)); fo.flush(); fe.flush(); fo.seek(0); fe.seek(0)
    r = (rc, fo.read(), fe.read()); fo.close(); fe.close(); return r
def run_old(argv):
    out, err = io.StringIO(), io.StringIO()
    rc = mp.execute(argv, StdOutputFiles(out, err)); return rc, out.getvalue(), err.getvalue()
CODE = {'PASS': 0, 'SKIPPED': 0, 'FAIL': 32, 'XFAIL': 33, 'XPASS': 33, 'SYNTAX_ERROR': 65, 'VALIDATION_ERROR': 65, 'FILE_ACCESS_ERROR': 65, 'PRE_PROCESS_ERROR': 65, 'HARD_ERROR': 128, 'INTERNAL_ERROR': 129}
ACT = "$ echo atc-out; echo atc-err >&2; exit 5"
ENDINGS = {   # name -> (setup, assert, cleanup, extra cli args, sandbox created?, kind)
 'pass':        ('', 'exit-code == 5', '', [], True, 'complete-pass'),
 'assert-fail': ('', 'exit-code == 6', '', [], True, 'complete-fail'),
 'syntax':      ('bogus-instruction', 'exit-code == 5', '', [], False, 'SYNTAX_ERROR'),
 'validation':  ('file f = @[UNDEF]@', 'exit-code == 5', '', [], False, 'VALIDATION_ERROR'),
 'hard-setup':  ('$ exit 1', 'exit-code == 5', '', [], True, 'HARD_ERROR'),
 'hard-assert': ('', 'contents nonexisting : is-empty', '', [], True, 'HARD_ERROR@assert'),
 'hard-cleanup': ('', 'exit-code == 5', '$ exit 1', [], True, 'HARD_ERROR@cleanup'),
 'file-access': ('including nonexisting.xly', 'exit-code == 5', '', [], False, 'FILE_ACCESS_ERROR'),
 'preproc':     ('', 'exit-code == 5', '', ['--preprocessor', 'false'], False, 'PRE_PROCESS_ERROR'),
}
def expected(status, kind, mode):
    if kind in ('SYNTAX_ERROR', 'FILE_ACCESS_ERROR', 'PRE_PROCESS_ERROR'): return kind   # before conf phase even matters
    if status == 'SKIP': return 'SKIPPED'
    if kind == 'VALIDATION_ERROR': return kind
    if kind == 'HARD_ERROR': return 'HARD_ERROR'
    if kind == 'HARD_ERROR@cleanup': return 'HARD_ERROR'
    if mode == 'act':   # assertions skipped
        return 'XPASS' if status == 'FAIL' else 'PASS'
    if kind == 'HARD_ERROR@assert': return 'HARD_ERROR'
    ok = kind == 'complete-pass'
    if status == 'FAIL': return 'XPASS' if ok else 'XFAIL'
    return 'PASS' if ok else 'FAIL'
bad = []; n = 0
for status in ('PASS', 'FAIL', 'SKIP'):
    for name, (setup, asrt, cleanup, extra, sds_created, kind) in ENDINGS.items():
        for mode, flag in (('normal', []), ('keep', ['--keep']), ('act', ['--act'])):
            text = "[conf]\nstatus = %s\n[setup]\n%s\n[act]\n%s\n[assert]\n%s\n[cleanup]\n%s\n" % (status, setup, ACT, asrt, cleanup)
            p = os.path.join(home, 'c.case'); open(p, 'w').write(text)
            rc, out, err = run(flag + extra + [p]); n += 1
            v = expected(status, kind, mode); problems = []
            complete = v in ('PASS', 'FAIL', 'XPASS', 'XFAIL')
            sds_exists = sds_created and status != 'SKIP' and v not in ('SYNTAX_ERROR', 'VALIDATION_ERROR', 'FILE_ACCESS_ERROR', 'PRE_PROCESS_ERROR')
            if mode == 'normal':
                if rc != CODE[v]: problems.append('rc %d != %d' % (rc, CODE[v]))
                if out.split('\n')[0] != v or out.count('\n') != 1: problems.append('stdout %r' % out)
            elif mode == 'keep':
                if rc != CODE[v]: problems.append('rc %d != %d' % (rc, CODE[v]))
                if err.split('\n')[0] != v: problems.append('stderr id %r' % err.split('\n')[0])
                if sds_exists:
                    if not (out.endswith('\n') and out.count('\n') == 1 and os.path.isdir(out.strip())): problems.append('stdout not just sds: %r' % out)
                elif out != '': problems.append('stdout should be empty: %r' % out)
            else:
                if complete:
                    if rc != 5: problems.append('rc %d != atc 5' % rc)
                    if out != 'atc-out\n' or err != 'atc-err\n': problems.append('streams %r %r' % (out, err))
                else:
                    if rc != CODE[v]: problems.append('rc %d != %d' % (rc, CODE[v]))
                    atc_ran = sds_exists and kind not in ('HARD_ERROR',)
                    exp_out = 'atc-out\n' if atc_ran else ''
                    if out != exp_out: problems.append('stdout %r != %r' % (out, exp_out))
                    errl = err.split('\n')
                    if atc_ran:
                        if errl[0] != 'atc-err' or errl[1] != v: problems.append('stderr %r' % errl[:2])
                    elif errl[0] != v: problems.append('stderr id %r' % errl[0])
            if problems: bad.append((status, name, mode, v, problems))
            for x in os.listdir(tempfile.tempdir): shutil.rmtree(os.path.join(tempfile.tempdir, x), ignore_errors=True)
# usage errors
for argv in (['--nonexisting-option', 'x'], [os.path.join(home, 'nonexisting.case')], []):
    rc, out, err = run(argv); n += 1
    if rc != 64 or out != '': bad.append(('usage', argv, rc, out))
print('ran', n, 'problems', len(bad)); [print('   ', b) for b in bad[:30]]
shutil.rmtree(d)
