"""Throwaway differential probe for C05 with a Python reference (the real oracle will be TLA+)."""
import io, sys, warnings, os, tempfile, itertools, re, time
warnings.simplefilter('ignore')
from exactly_lib.cli_default.default_main_program_setup import default_main_program
from exactly_lib.util.file_utils.std import StdOutputFiles
mp = default_main_program()
d = tempfile.mkdtemp(); tempfile.tempdir = d
def run(argv):
    out, err = io.StringIO(), io.StringIO()
    rc = mp.execute(argv, StdOutputFiles(out, err)); return rc, out.getvalue().strip(), err.getvalue()

def lines(t):
    r = []; cur = ''
    for ch in t:
        cur += ch
        if ch == '\n': r.append(cur); cur = ''
    if cur: r.append(cur)
    return r

# transformers: name -> (syntax, reference function)
def repl(regex, rep, preserve):
    def f(t):
        out = []
        for l in lines(t):
            if preserve and l.endswith('\n'): out.append(re.sub(regex, rep, l[:-1]) + '\n')
            else: out.append(re.sub(regex, rep, l))
        return ''.join(out)
    return f
T = {
 'identity': ('identity', lambda t: t),
 'upper': ('char-case -to-upper', str.upper),
 'strip': ('strip', str.strip),
 'strip-ts': ('strip -trailing-space', str.rstrip),
 'strip-nl': ('strip -trailing-new-lines', lambda t: t.rstrip('\n')),
 'filter-a': ("filter contents matches a", lambda t: ''.join(l for l in lines(t) if re.search('a', l.rstrip('\n')))),
 'grep-full-a': ("grep -full a", lambda t: ''.join(l for l in lines(t) if re.fullmatch('a', l.rstrip('\n')))),
 'filter-ln': ("filter line-num >= 2", lambda t: ''.join(lines(t)[1:])),
 'filter-ln13': ("filter -line-nums 1 -1", lambda t: ''.join(l for i, l in enumerate(lines(t)) if i == 0 or i == len(lines(t)) - 1)),
 'replace-a-X': ("replace a X", repl('a', 'X', False)),
 'replace-a$': ("replace 'a$' X", repl('a$', 'X', False)),
 'replace-a$-p': ("replace -preserve-new-lines 'a$' X", repl('a$', 'X', True)),
 'replace-nl': ("replace '\\n' X", repl('\n', 'X', False)),
 'replace-nl-p': ("replace -preserve-new-lines '\\n' X", repl('\n', 'X', True)),
 'replace-sp-nl': ("replace ' ' '\\n'", repl(' ', '\n', False)),
 'replace-at2': ("replace -at line-num == 2 a X", lambda t: ''.join(re.sub('a', 'X', l) if i == 1 else l for i, l in enumerate(lines(t)))),
 'seq': ("replace a b | replace b X | strip", lambda t: t.replace('a', 'b').replace('b', 'X').strip()),
}
M = {
 'is-empty': ('is-empty', lambda t: t == ''),
 'num-lines2': ('num-lines == 2', lambda t: len(lines(t)) == 2),
 'matches-ab': ("matches 'a.b'", lambda t: re.search('a.b', t) is not None),
 'matches-full': ("matches -full 'a+\\n'", lambda t: re.fullmatch('a+\n', t) is not None),
 'matches-dollar': ("matches 'a$'", lambda t: re.search('a$', t) is not None),
 'every-a': ("every line : contents matches a", lambda t: all(re.search('a', l.rstrip('\n')) for l in lines(t))),
 'any-empty': ("any line : contents is-empty", lambda t: any(l.rstrip('\n') == '' for l in lines(t))),
 'every-numlines': ("every line : contents num-lines == 1", lambda t: all(len(lines(l.rstrip('\n'))) == 1 for l in lines(t))),
 'not-and-or': ("! is-empty && ( num-lines == 1 || matches b )", lambda t: t != '' and (len(lines(t)) == 1 or 'b' in t)),
}
ALPHA = 'ab \n'
N = int(sys.argv[1]) if len(sys.argv) > 1 else 4
texts = [''.join(p) for k in range(N + 1) for p in itertools.product(ALPHA, repeat=k)]
src = os.path.join(d, 'in.txt'); case = os.path.join(d, 'c.case'); exp = os.path.join(d, 'exp.txt')
bad = {}; n = 0; t0 = time.time()
for t in texts:
    open(src, 'w', newline='').write(t)
    for name, (syn, f) in T.items():
        open(exp, 'w', newline='').write(f(t))
        open(case, 'w').write("[assert]\ncontents -rel-home in.txt :\n -transformed-by ( %s )\n equals -contents-of -rel-home exp.txt\n" % syn)
        rc, out, err = run([case]); n += 1
        if out != 'PASS': bad.setdefault('T:' + name, []).append((t, f(t), out))
    for name, (syn, f) in M.items():
        open(case, 'w').write("[assert]\ncontents -rel-home in.txt : %s\n" % syn)
        rc, out, err = run([case]); n += 1
        if out != ('PASS' if f(t) else 'FAIL'): bad.setdefault('M:' + name, []).append((t, f(t), out))
print('ran', n, 'in', round(time.time() - t0, 1), 's; texts', len(texts))
for k, v in bad.items():
    print(k, len(v), v[:6])
import shutil; shutil.rmtree(d)
