"""Throwaway differential probe for C09 (documented STRING/LIST syntax vs real), Python reference."""
import io, sys, warnings, os, tempfile, itertools, time, collections
warnings.simplefilter('ignore')
from exactly_lib.cli_default.default_main_program_setup import default_main_program
from exactly_lib.util.file_utils.std import StdOutputFiles
mp = default_main_program()
d = tempfile.mkdtemp(); tempfile.tempdir = d
OUT = os.path.join(d, 'out.bin')
probe = os.path.join(d, 'probe')
open(probe, 'w').write("#!/bin/sh\nfor a in \"$@\"; do printf '%s\\0' \"$a\"; done > " + OUT + "\n")
os.chmod(probe, 0o755)
def run_text(text):
    p = os.path.join(d, 'c.case'); open(p, 'w').write(text)
    if os.path.exists(OUT): os.remove(OUT)
    out, err = io.StringIO(), io.StringIO()
    rc = mp.execute([p], StdOutputFiles(out, err))
    args = None
    if os.path.exists(OUT):
        raw = open(OUT, 'rb').read().decode()
        args = raw.split('\0')[:-1] if raw else []
    return out.getvalue().strip(), args

SYM = 'VAL'
def reference(src):
    """Documented syntax: tokens separated by blanks; a token is a run of adjacent fragments:
    naked chars, "soft", 'hard'.  References substituted in naked and soft fragments only.
    Returns list of strings, or 'ERR' for an unterminated quote."""
    toks = []; i = 0; n = len(src)
    while i < n:
        if src[i] == ' ': i += 1; continue
        frags = []
        while i < n and src[i] != ' ':
            if src[i] in '"\'':
                q = src[i]; j = src.find(q, i + 1)
                if j == -1: return 'ERR'
                frags.append((q, src[i + 1:j])); i = j + 1
            else:
                j = i
                while j < n and src[j] not in ' "\'': j += 1
                frags.append(('n', src[i:j])); i = j
        toks.append(''.join(s if k == "'" else s.replace('@[S]@', SYM) for k, s in frags))
    return toks

ALPHA = ['a', ' ', '"', "'", '#', '@[S]@']
N = int(sys.argv[1]) if len(sys.argv) > 1 else 4
bad = collections.defaultdict(list); n = 0; t0 = time.time()
for k in range(1, N + 1):
    for p in itertools.product(ALPHA, repeat=k):
        src = ''.join(p)
        if src.strip() == '': continue
        exp = reference(src)
        text = "[setup]\ndef string S = %s\ndef list L = %s\nrun %s x @[L]@ y\n" % (SYM, src, probe)
        verdict, args = run_text(text); n += 1
        if exp == 'ERR':
            ok = verdict == 'SYNTAX_ERROR'
        else:
            ok = verdict == 'PASS' and args == ['x'] + exp + ['y']
        if not ok:
            cls = ('hash' if '#' in src else '') + ('|mixed' if (exp != 'ERR' and '@[S]@' in src) else '') + ('|err' if exp == 'ERR' else '')
            bad[cls].append((src, exp, verdict, args))
print('ran', n, 'in', round(time.time() - t0, 1))
for k, v in bad.items():
    print('CLASS', repr(k), len(v))
    for x in v[:8]: print('    ', x)
import shutil; shutil.rmtree(d)
