import io, sys, warnings, os, tempfile
warnings.simplefilter('ignore')
from exactly_lib.cli_default.default_main_program_setup import default_main_program
from exactly_lib.util.file_utils.std import StdOutputFiles
mp = default_main_program()
d = tempfile.mkdtemp()
def run_text(text, args=()):
    p = os.path.join(d, 'c.case')
    open(p, 'w').write(text)
    out, err = io.StringIO(), io.StringIO()
    rc = mp.execute(list(args) + [p], StdOutputFiles(out, err))
    return rc, out.getvalue().strip(), err.getvalue()

cases = {
 'after infix':            "exit-code == 0 &&\n == 0\n",
 'before infix (no par)':  "exit-code == 0\n && == 0\n",
 'before infix in par':    "exit-code ( == 0\n && == 0 )\n",
 'after prefix':           "exit-code !\n == 1\n",
 'expr on next line':      "exit-code\n == 0\n",
 'after lpar':             "exit-code (\n == 0 )\n",
 'before rpar':            "exit-code ( == 0\n)\n",
 'blank line after infix': "exit-code == 0 &&\n\n == 0\n",
 'or-and prec':            "exit-code == 1 || == 0 && == 0\n",
 'and-or prec':            "exit-code == 0 && == 0 || == 1 && == 1\n",
 'not binds tight':        "exit-code ! == 1 && == 0\n",
 'not not':                "exit-code ! ! == 0\n",
 'trailing op':            "exit-code == 0 &&\n",
 'double op':              "exit-code == 0 && && == 0\n",
 'missing rpar':           "exit-code ( == 0\n",
 'extra rpar':             "exit-code == 0 )\n",
 'empty par':              "exit-code ( )\n",
 'leading op':             "exit-code && == 0\n",
 'mix in par after or':    "exit-code ( == 1 ||\n == 0 )\n",
 'comment inside par':     "exit-code ( == 0\n# c\n&& == 0 )\n",
 'no space par':           "exit-code (== 0)\n",
 'num-lines simple':       None,
}
for name, body in cases.items():
    if body is None: continue
    text = "[act]\n$ true\n[assert]\n" + body
    rc, out, err = run_text(text)
    first_err = ' | '.join([l for l in err.splitlines() if l.strip()][:6])
    print('%-24s rc=%-3d %-16s %s' % (name, rc, out, first_err[:150]))
