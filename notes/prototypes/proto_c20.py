import io, sys, warnings, os, time, re
warnings.simplefilter('ignore')
from exactly_lib.cli_default.default_main_program_setup import default_main_program
from exactly_lib.cli_default.program_modes.test_case import default_instructions_setup as dis
from exactly_lib.cli_default.program_modes import test_suite
from exactly_lib.util.file_utils.std import StdOutputFiles
mp = default_main_program()
def run(argv):
    out, err = io.StringIO(), io.StringIO()
    rc = mp.execute(argv, StdOutputFiles(out, err)); return rc, out.getvalue(), err.getvalue()
s = dis.INSTRUCTIONS_SETUP
sets = {'conf': s.config_instruction_set, 'setup': s.setup_instruction_set, 'before-assert': s.before_assert_instruction_set,
        'assert': s.assert_instruction_set, 'cleanup': s.cleanup_instruction_set}
pairs = [(ph, n) for ph, d in sets.items() for n in d]
print(len(pairs), 'accepted (phase, instruction) pairs')
t = time.time(); bad = []
for ph, n in pairs:
    rc, out, err = run(['help', ph, n])
    if rc != 0 or not out.strip(): bad.append((ph, n, rc, err[:80]))
print('help calls', len(pairs), 'in', time.time() - t, 'bad', bad)
for et in ['concept', 'directive', 'confparam', 'actor', 'type', 'syntax', 'builtin', 'reporter']:
    rc, out, err = run(['help', et]); print(et, rc, len(out.splitlines()))
rc, out, err = run(['help', 'instructions']); print('instructions list lines', len(out.splitlines()))
rc, out, err = run(['help', 'setup', 'nope']); print('unknown instr', rc, repr(err[:100]))
rc, html, err = run(['help', 'htmldoc'])
ids = re.findall(r'\bid="([^"]+)"', html); hrefs = re.findall(r'href="#([^"]+)"', html)
print('ids', len(ids), 'unique', len(set(ids)), 'hrefs', len(hrefs), 'dangling', len(set(hrefs) - set(ids)), list(set(hrefs) - set(ids))[:5])
import collections
print('dup ids', [k for k, v in collections.Counter(ids).items() if v > 1][:10])
