import io, sys, warnings, os, tempfile
warnings.simplefilter('ignore')
from exactly_lib import program_info
from exactly_lib.cli import main_program
from exactly_lib.cli.test_case_def import TestCaseDefinitionForMainProgram
from exactly_lib.cli_default.program_modes import test_suite
from exactly_lib.cli_default.program_modes.test_case import builtin_symbols, default_instructions_setup, test_case_handling_setup
from exactly_lib.common import instruction_name_and_argument_splitter
from exactly_lib.execution import sandbox_dir_resolving
from exactly_lib.processing.instruction_setup import TestCaseParsingSetup
from exactly_lib.processing.parse.act_phase_source_parser import ActPhaseParser
from exactly_lib.util.file_utils.std import StdOutputFiles

def mk(mem):
    return main_program.MainProgram(test_case_handling_setup.setup(),
                                    sandbox_dir_resolving.mk_tmp_dir_with_prefix('exactly-'),
                                    TestCaseDefinitionForMainProgram(
                                        TestCaseParsingSetup(instruction_name_and_argument_splitter.splitter,
                                                             default_instructions_setup.INSTRUCTIONS_SETUP,
                                                             ActPhaseParser()),
                                        builtin_symbols.ALL),
                                    test_suite.test_suite_definition(), mem)
d = tempfile.mkdtemp()
tempfile.tempdir = d
def run_text(mp, text):
    p = os.path.join(d, 'c.case'); open(p, 'w').write(text)
    out, err = io.StringIO(), io.StringIO()
    rc = mp.execute([p], StdOutputFiles(out, err))
    return out.getvalue().strip()

open(os.path.join(d, 'ff.txt'), 'w', newline='').write('a\fb\n')
open(os.path.join(d, 'crlf.txt'), 'w', newline='').write('a\r\nb\r\n')
variants = {
  'plain':                 "contents -rel-home {f} : num-lines == {n}",
  'and-and':               "contents -rel-home {f} : ( num-lines == {n} && num-lines == {n} )",
  'upper':                 "contents -rel-home {f} : -transformed-by char-case -to-upper num-lines == {n}",
  'upper and-and':         "contents -rel-home {f} : -transformed-by char-case -to-upper ( num-lines == {n} && num-lines == {n} )",
  'matches then numlines': "contents -rel-home {f} : -transformed-by char-case -to-upper ( matches A && num-lines == {n} )",
  'stdout of cat':         None,
}
for mem in (1, 3, 100000):
    mp = mk(mem)
    for f in ('ff.txt', 'crlf.txt'):
        for name, tmpl in variants.items():
            if tmpl is None: continue
            res = {n: run_text(mp, "[assert]\n" + tmpl.format(f=f, n=n) + "\n") for n in (1, 2, 3)}
            print('mem=%-6d %-8s %-22s %s' % (mem, f, name, res))
import shutil; shutil.rmtree(d)
