---- MODULE PXT ----
\* Throwaway prototype: trace validation of hook traces against the executor machine.
EXTENDS Naturals, Sequences, TLC, Json, IOUtils, FiniteSets

Phases == {"conf", "setup", "ba", "assert", "cleanup"}
Forward == <<
  <<"main","conf">>,
  <<"parse","act">>,
  <<"sym","setup">>, <<"sym","act">>, <<"sym","ba">>, <<"sym","assert">>, <<"sym","cleanup">>,
  <<"pre","setup">>, <<"pre","act">>, <<"pre","ba">>, <<"pre","assert">>, <<"pre","cleanup">>,
  <<"mksds","-">>,
  <<"main","setup">>,
  <<"post","setup">>, <<"post","act">>, <<"post","ba">>, <<"post","assert">>,
  <<"exeinput","act">>, <<"prepare","act">>, <<"execute","act">>,
  <<"main","ba">>, <<"main","assert">> >>
NF == Len(Forward)
Status(o) == CASE o = "ve" -> "VALIDATION_ERROR" [] o = "syntax" -> "SYNTAX_ERROR"
               [] o \in {"he_ret", "he_raise"} -> "HARD_ERROR" [] o = "fail" -> "FAIL"
               [] o = "exc" -> "INTERNAL_ERROR" [] OTHER -> "PASS"

Traces == ndJsonDeserialize(IOEnv.TRACE_FILE)   \* sequence of traces; each a sequence of records
NT == Len(Traces)

VARIABLES tid, l,      \* which trace, position in it
          n, actMode, k, i, sds, prev, fail, cfail, inCleanup, ci, done, cleanupEntered, marked
vars == <<tid, l, n, actMode, k, i, sds, prev, fail, cfail, inCleanup, ci, done, cleanupEntered, marked>>
Tr == Traces[tid]
Ev == Tr[l]
IsActStep(kk) == Forward[kk][2] = "act"
Count(kk) == IF Forward[kk][2] \in {"act", "-"} THEN 1 ELSE n[Forward[kk][2]]
PrevFor(kk) == LET s == Forward[kk] IN
  IF s = <<"execute", "act">> THEN "ACT"
  ELSE IF s = <<"main", "ba">> THEN "BEFORE_ASSERT"
  ELSE IF s = <<"main", "assert">> THEN "ASSERT" ELSE "SETUP"
SkippedInActMode(kk) == actMode /\ Forward[kk] \in {<<"main","ba">>, <<"main","assert">>}

Init == /\ tid \in 1..NT /\ l = 2
        /\ n = Traces[tid][1].n /\ actMode = Traces[tid][1].act
        /\ k = 1 /\ i = 1 /\ sds = "none" /\ prev = "-" /\ fail = <<>> /\ cfail = <<>>
        /\ inCleanup = FALSE /\ ci = 1 /\ done = FALSE /\ cleanupEntered = 0 /\ marked = FALSE

Consume == l <= Len(Tr) /\ l' = l + 1

\* the spec's own step for an outcome o of the current forward step (instruction i of step k)
ForwardOutcome(o) ==
  /\ ~done /\ ~inCleanup /\ k <= NF
  /\ IF o = "ok" THEN
        /\ IF i < Count(k) THEN i' = i + 1 /\ k' = k /\ marked' = marked
           ELSE i' = 1 /\ k' = k + 1 /\ marked' = FALSE
        /\ UNCHANGED <<fail, inCleanup, ci, prev, cleanupEntered, done>>
     ELSE
        /\ fail' = <<Forward[k][1], Forward[k][2], Status(o)>>
        /\ UNCHANGED <<k, i, marked>>
        /\ IF sds = "live"
           THEN inCleanup' = TRUE /\ ci' = 1 /\ prev' = PrevFor(k) /\ cleanupEntered' = cleanupEntered + 1 /\ done' = done
           ELSE done' = TRUE /\ UNCHANGED <<inCleanup, ci, prev, cleanupEntered>>
  /\ UNCHANGED <<n, actMode, sds, cfail>>

\* --- trace actions
TStepMarker ==   \* 'step' event of an instruction phase step: must name the step the spec is at
  /\ Consume /\ Ev.ev = "step" /\ ~done
  /\ IF Ev.step = "main" /\ Ev.phase = "cleanup" THEN
        /\ inCleanup /\ ci = 1 /\ UNCHANGED <<k, i, marked>>
     ELSE
        /\ ~inCleanup /\ k <= NF /\ i = 1 /\ ~marked
        /\ <<Ev.step, Ev.phase>> = Forward[k]
        /\ IF Count(k) = 0 THEN k' = k + 1 /\ marked' = FALSE ELSE k' = k /\ marked' = TRUE
        /\ i' = i
  /\ UNCHANGED <<tid, n, actMode, sds, prev, fail, cfail, inCleanup, ci, done, cleanupEntered>>

TInstr ==
  /\ Consume /\ Ev.ev = "instr"
  /\ IF inCleanup THEN
        /\ ~done /\ ci <= n["cleanup"]
        /\ IF Ev.o = "ok" THEN ci' = ci + 1 /\ UNCHANGED <<cfail, done>>
           ELSE cfail' = <<"main", "cleanup", Status(Ev.o)>> /\ done' = TRUE /\ UNCHANGED ci
        /\ UNCHANGED <<n, actMode, k, i, sds, prev, fail, inCleanup, cleanupEntered, marked>>
     ELSE
        /\ marked /\ ~IsActStep(k) /\ ForwardOutcome(Ev.o)
  /\ UNCHANGED tid

TAct ==
  /\ Consume /\ Ev.ev = "act" /\ ~inCleanup /\ k <= NF
  /\ <<Ev.step, Ev.phase>> = Forward[k]
  /\ ForwardOutcome(Ev.o)
  /\ UNCHANGED tid

TSds ==
  /\ Consume /\ Ev.ev = "sds" /\ ~done /\ ~inCleanup /\ k <= NF /\ Forward[k][1] = "mksds" /\ sds = "none"
  /\ sds' = "live" /\ k' = k + 1
  /\ UNCHANGED <<tid, n, actMode, i, prev, fail, cfail, inCleanup, ci, done, cleanupEntered, marked>>

\* silent: skip ba/assert main in --act mode is visible as missing markers -> a silent spec step
TSkipActMode ==
  /\ ~done /\ ~inCleanup /\ k <= NF /\ SkippedInActMode(k) /\ ~marked
  /\ k' = k + 1
  /\ UNCHANGED <<tid, l, n, actMode, i, sds, prev, fail, cfail, inCleanup, ci, done, cleanupEntered, marked>>

TCleanupMarker ==  \* 'cleanup' event carries the previous phase told to cleanup instructions
  /\ Consume /\ Ev.ev = "cleanup" /\ ~done
  /\ IF inCleanup THEN UNCHANGED <<inCleanup, ci, prev, cleanupEntered>>      \* entered by a failing step
     ELSE /\ k > NF                                                         \* forward sequence complete
          /\ inCleanup' = TRUE /\ ci' = 1 /\ cleanupEntered' = cleanupEntered + 1
          /\ prev' = IF actMode THEN "ACT" ELSE "ASSERT"
  /\ Ev.prev = prev'                                                        \* CleanupToldPrevious, on the real code
  /\ UNCHANGED <<tid, n, actMode, k, i, sds, fail, cfail, done, marked>>

TRemove ==
  /\ Consume /\ Ev.ev = "rm" /\ inCleanup /\ sds = "live"
  /\ (done \/ ci > n["cleanup"])
  /\ ~Ev.exists
  /\ sds' = "removed" /\ done' = TRUE
  /\ UNCHANGED <<tid, n, actMode, k, i, prev, fail, cfail, inCleanup, ci, cleanupEntered, marked>>

Acceptable == IF fail = <<>> /\ cfail = <<>> THEN {"PASS", "XPASS"}
              ELSE (IF fail # <<>> THEN {fail[3]} ELSE {}) \cup (IF cfail # <<>> THEN {cfail[3]} ELSE {})
                   \cup (IF fail # <<>> /\ fail[3] = "FAIL" /\ cfail = <<>> THEN {"XFAIL"} ELSE {})
TEnd ==
  /\ Consume /\ Ev.ev = "end"
  /\ (done \/ (sds = "none" /\ k > NF))
  /\ Ev.status \in Acceptable
  /\ (sds # "none" => cleanupEntered = 1)
  /\ UNCHANGED <<tid, n, actMode, k, i, sds, prev, fail, cfail, inCleanup, ci, done, cleanupEntered, marked>>

Next == TStepMarker \/ TInstr \/ TAct \/ TSds \/ TSkipActMode \/ TCleanupMarker \/ TRemove \/ TEnd
Spec == Init /\ [][Next]_vars

\* acceptance bookkeeping: which traces were consumed completely
Reached == (l = Len(Tr) + 1) => TLCSet(1, TLCGet(1) \cup {tid})
ASSUME TLCSet(1, {})
Accepted == LET r == TLCGet(1) IN
            /\ PrintT(<<"ACCEPTED", Cardinality(r), "OF", NT>>)
            /\ PrintT(<<"REJECTED", (1..NT) \ r>>)
            /\ r = 1..NT
\* longest prefix per rejected trace
Longest == TLCSet(2, IF l > TLCGet(2)[tid] THEN [TLCGet(2) EXCEPT ![tid] = l] ELSE TLCGet(2))
====
