"""Throwaway probe: file name parts (stem/suffixes/suffix) vs the documented rule."""
import io, sys, warnings, os, tempfile, itertools, re, shutil
warnings.simplefilter('ignore')
from exactly_lib.cli_default.default_main_program_setup import default_main_program
from exactly_lib.util.file_utils.std import StdOutputFiles
mp = default_main_program()
d = tempfile.mkdtemp(); tempfile.tempdir = os.path.join(d, 'tmp'); os.mkdir(tempfile.tempdir)
home = os.path.join(d, 'home'); os.mkdir(home); sub = os.path.join(home, 'dir'); os.mkdir(sub)
def run_text(text):
    p = os.path.join(home, 'c.case'); open(p, 'w').write(text)
    out, err = io.StringIO(), io.StringIO()
    rc = mp.execute([p], StdOutputFiles(out, err)); return out.getvalue().strip(), err.getvalue()
def parts(name):
    i = name.find('.'); j = name.rfind('.')
    if i == -1: return name, '', ''
    return name[:i], name[i:], name[j:]
bad = []; n = 0
names = [''.join(p) for k in range(1, 5) for p in itertools.product('ab.', repeat=k)]
names = [x for x in names if x not in ('.', '..')]
for name in names:
    for f in os.listdir(sub): os.remove(os.path.join(sub, f))
    open(os.path.join(sub, name), 'w').close()
    stem, suffixes, suffix = parts(name)
    for what, val in (('name', name), ('stem', stem), ('suffixes', suffixes), ('suffix', suffix)):
        text = "[assert]\ndir-contents -rel-home dir : every file : %s ~ '^%s$'\n" % (what, re.escape(val))
        v, err = run_text(text); n += 1
        if v != 'PASS': bad.append((name, what, val, v, [l for l in err.split('\n') if 'Actual' in l or "'" in l][-3:]))
print('ran', n, 'bad', len(bad)); [print('   ', b) for b in bad[:30]]
shutil.rmtree(d)
