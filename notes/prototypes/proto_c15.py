"""Throwaway probe for C15: dir-contents matchers on prepared trees vs a Python reference."""
import io, sys, warnings, os, tempfile, itertools, time, collections, random, fnmatch, shutil
warnings.simplefilter('ignore')
from exactly_lib.cli_default.default_main_program_setup import default_main_program
from exactly_lib.util.file_utils.std import StdOutputFiles
mp = default_main_program()
d = tempfile.mkdtemp(); tempfile.tempdir = os.path.join(d, 'tmp'); os.mkdir(tempfile.tempdir)
home = os.path.join(d, 'home'); os.mkdir(home)
def run_text(text):
    p = os.path.join(home, 'c.case'); open(p, 'w').write(text)
    out, err = io.StringIO(), io.StringIO()
    rc = mp.execute([p], StdOutputFiles(out, err)); return out.getvalue().strip(), err.getvalue()
# tree: dict path(tuple) -> 'f' | 'd' | ('l', target-relative-to-root or abs)
NAMES = ['a', 'b.txt']
def gen_trees(rnd, count):
    for _ in range(count):
        t = {}
        def fill(prefix, depth):
            for nm in NAMES:
                r = rnd.random()
                if r < 0.35: continue
                p = prefix + (nm,)
                if r < 0.6: t[p] = 'f'
                elif r < 0.9 and depth < 2: t[p] = 'd'; fill(p, depth + 1)
                elif r < 0.95: t[p] = ('l', 'FILE')
                else: t[p] = ('l', 'BROKEN')
        fill((), 0); yield t
def build(t, root):
    if os.path.exists(root): shutil.rmtree(root)
    os.mkdir(root)
    for p in sorted(t):
        q = os.path.join(root, *p); k = t[p]
        if k == 'f': open(q, 'w').write('x')
        elif k == 'd': os.mkdir(q)
        elif k == ('l', 'FILE'): os.symlink(os.path.join(d, 'target-file'), q)
        else: os.symlink(os.path.join(d, 'nonexisting'), q)
open(os.path.join(d, 'target-file'), 'w').write('t')
def typ(k, follow=True):
    if k in ('f', 'd'): return k
    return 'f' if (k[1] == 'FILE' and follow) else ('l' if not follow else None)
def is_link(k): return isinstance(k, tuple)
def files(t, recursive, mind, maxd, prune=None):
    """reference: depth 0 = direct contents; pruned dirs (by name pattern) are listed but not descended"""
    res = []
    for p, k in t.items():
        depth = len(p) - 1
        if not recursive and depth > 0: continue
        if mind is not None and depth < mind: continue
        if maxd is not None and depth > maxd: continue
        # ancestors must be unpruned dirs
        ok = True
        for i in range(1, len(p)):
            anc = p[:i]
            if prune and fnmatch.fnmatchcase(anc[-1], prune): ok = False
        if ok: res.append(p)
    return res
FM = {  # file matchers: syntax -> pred(path, kind)
 'type file': lambda p, k: typ(k) == 'f',
 'type dir': lambda p, k: typ(k) == 'd',
 'type symlink': lambda p, k: is_link(k),
 "name 'b*'": lambda p, k: fnmatch.fnmatchcase(p[-1], 'b*'),
 'suffix .txt': lambda p, k: os.path.splitext(p[-1])[1] == '.txt',
 'stem a': lambda p, k: p[-1].split('.')[0] == 'a',
}
rnd = random.Random(5); bad = collections.defaultdict(list); n = 0; t0 = time.time()
root = os.path.join(home, 'tree')
for t in gen_trees(rnd, 60):
    build(t, root)
    for recursive, mind, maxd in [(False, None, None), (True, None, None), (True, 1, None), (True, None, 0), (True, None, 1), (True, 1, 1), (True, 2, 2), (True, 0, 2)]:
        opts = ('-recursive' + (' -min-depth %d' % mind if mind is not None else '') + (' -max-depth %d' % maxd if maxd is not None else '')) if recursive else ''
        for prune in (None, 'a'):
            fs = files(t, recursive, mind, maxd, prune)
            pr = ("-with-pruned name %s " % prune) if prune else ''
            if prune and not recursive: continue
            checks = [('is-empty', len(fs) == 0), ('num-files == %d' % len(fs), True), ('num-files == %d' % (len(fs) + 1), False)]
            for syn, pred in FM.items():
                sel = [p for p in fs if pred(p, t[p])]
                checks.append(('-selection %s num-files == %d' % (syn, len(sel)), True))
                checks.append(('every file : %s' % syn, len(sel) == len(fs)))
                checks.append(('any file : %s' % syn, len(sel) > 0))
            # matches -full with exactly the set; and with one missing
            names = ['/'.join(p) for p in fs]
            if names:
                checks.append(('matches -full {\n%s\n}' % '\n'.join(names), True))
                checks.append(('matches {\n%s\n}' % '\n'.join(names[1:] + ['zz']), False))
                if len(names) > 1: checks.append(('matches -full {\n%s\n}' % '\n'.join(names[1:]), False))
            for syn, exp in checks:
                text = "[assert]\ndir-contents -rel-home tree : %s %s%s\n" % (opts, pr, syn)
                v, err = run_text(text); n += 1
                if v != ('PASS' if exp else 'FAIL'):
                    bad[syn.split()[0] + ('|prune' if prune else '')].append((sorted(t.items()), opts, pr, syn, exp, v, err.split('\n')[0:1]))
print('ran', n, 'in', round(time.time() - t0, 1))
for k, v in bad.items():
    print('BAD', k, len(v)); [print('    ', x) for x in v[:3]]
shutil.rmtree(d)
