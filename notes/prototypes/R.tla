---- MODULE R ----
EXTENDS Naturals, Integers, Sequences, TLC, Json, IOUtils, SequencesExt, FiniteSetsExt, Functions

\* chars: 0 = NL, 1 = 'a', 2 = 'b', 3 = ' '
Char == 0..3
NL == 0
Texts(n) == UNION {[1..k -> Char] : k \in 0..n}

\* atom: [set |-> SUBSET Char, q |-> "1" | "?" | "*" | "+"]
FAILV == -1

\* longest run of chars in set starting at position i (1-based), returns count
RECURSIVE Run(_, _, _)
Run(t, i, set) == IF i <= Len(t) /\ t[i] \in set THEN 1 + Run(t, i + 1, set) ELSE 0

\* Python backtracking: returns end position (index of next char) or FAILV.
\* atEnd: whether the regex is anchored with $ (end or before final NL)
RECURSIVE M(_, _, _, _, _)
RECURSIVE Try(_, _, _, _, _, _, _)
EndOk(t, i, dollar) == \/ ~dollar
                       \/ i = Len(t) + 1
                       \/ (i = Len(t) /\ t[i] = NL)
M(atoms, k, t, i, dollar) ==
  IF k > Len(atoms) THEN (IF EndOk(t, i, dollar) THEN i ELSE FAILV)
  ELSE LET a == atoms[k]
           r == Run(t, i, a.set)
           lo == IF a.q \in {"1", "+"} THEN 1 ELSE 0
           hi == IF a.q \in {"1", "?"} THEN (IF r >= 1 THEN 1 ELSE 0) ELSE r
       IN IF hi < lo THEN FAILV ELSE Try(atoms, k, t, i, dollar, hi, lo)
\* greedy: try n = hi down to lo
Try(atoms, k, t, i, dollar, n, lo) ==
  IF n < lo THEN FAILV
  ELSE LET e == M(atoms, k + 1, t, i + n, dollar)
       IN IF e # FAILV THEN e ELSE Try(atoms, k, t, i, dollar, n - 1, lo)

\* search: leftmost start s >= from ; returns <<s, e>> or <<>>
RECURSIVE Search(_, _, _, _)
Search(re, t, s, last) ==
  IF s > last THEN <<>>
  ELSE LET e == IF re.caret /\ s # 1 THEN FAILV ELSE M(re.atoms, 1, t, s, re.dollar)
       IN IF e # FAILV THEN <<s, e>> ELSE Search(re, t, s + 1, last)

Matches(re, t) == Search(re, t, 1, Len(t) + 1) # <<>>

\* sub for non-nullable regexes: replace each leftmost non-overlapping match with repl
RECURSIVE Sub(_, _, _, _)
Sub(re, t, s, repl) ==
  LET m == Search(re, t, s, Len(t) + 1)
  IN IF m = <<>> THEN SubSeq(t, s, Len(t))
     ELSE SubSeq(t, s, m[1] - 1) \o repl \o Sub(re, t, m[2], repl)

Quants == {"1", "?", "*", "+"}
Sets == {{1}, {2}, {1, 2}, {1, 2, 3}}   \* a, b, [ab], .
Atoms == [set : Sets, q : Quants]
AtomSeqs == UNION {[1..k -> Atoms] : k \in 1..2}
Regexes == [caret : BOOLEAN, dollar : BOOLEAN, atoms : AtomSeqs]
Nullable(re) == \A k \in 1..Len(re.atoms) : re.atoms[k].q \in {"?", "*"}
SubRegexes == {re \in Regexes : ~Nullable(re)}

N == 5
ASSUME PrintT(<<"regexes", Cardinality(Regexes), Cardinality(SubRegexes), "texts", Cardinality(Texts(N))>>)
Cases == {[re |-> re, t |-> t, m |-> Matches(re, t)] : re \in Regexes, t \in Texts(N)}
ASSUME PrintT(<<"cases", Cardinality(Cases)>>)
SubCases == {[re |-> re, t |-> t, o |-> Sub(re, t, 1, <<3>>)] : re \in SubRegexes, t \in Texts(4)}
ASSUME PrintT(<<"subcases", Cardinality(SubCases)>>)
ASSUME ndJsonSerialize("/tmp/t1/re.ndjson", SetToSeq(SubCases))
VARIABLE x
Init == x = 0
Next == x' = x
====
