#!/bin/sh
# re.sh NAME CHECK... : re-run stored seed against checks (compact)
n=$1; shift
SEED_SKIP_BASELINE=1 /venv/bin/python /verif/harness/seedcheck.py /verif/seeded/$n patch.diff demo.py $n "$@" | /venv/bin/python -c "
import json,sys
s=sys.stdin.read(); o=json.loads(s[s.index('{'):])
print(o['name'], 'confirmed=%s'%o['confirmed'], {c:(x['exit'],x['violations'],x['wall']) for c,x in o['checks'].items()})
for c,x in o['checks'].items():
    print('   ', c, (x['first'] or x['tail'] or ['?'])[0][:220])
"
