import json, os
props = {json.loads(l)['id']: json.loads(l) for l in open('/verif/properties.jsonl')}
groups = {'B1': ['C01','C02','C03','C04'], 'B2': ['C05','C06','C13','C14'], 'B3': ['C07','C08','C09','C12'], 'B4': ['C10','C11','C19','C15'], 'B5': ['C16','C17','C18','C20']}
for g, ids in groups.items():
    out = '/tmp/benign2/%s' % g; wt = out + '/wt'
    os.makedirs(out, exist_ok=True)
    ptxt = '\n\n'.join('%s - %s\n  Statement: %s\n  Code: %s' % (i, props[i]['title'], props[i]['statement'], ', '.join(props[i]['anchors']['files'][:8])) for i in ids)
    txt = f"""You are helping to evaluate a verification effort for the open-source project emilkarlen/exactly (a CLI program tester with its own test-case DSL, written in Python; source under src/exactly_lib). Verification machinery (which you cannot see) claims to decide a number of semantic properties of the program WITHOUT raising false alarms on code for which the properties still hold. Your job is to produce realistic BEHAVIOUR-PRESERVING changes - changes a maintainer could make on an ordinary day - in the code regions behind four of these properties, so that we can test that the machinery stays silent on them.

You have your own scratch git worktree of the repository at {wt} (already created). Work ONLY there and in {out}; never touch /repo or /verif; never commit anything.

The four properties and the files their behaviour lives in:

{ptxt}

Produce ONE patch per property (four patches: {', '.join(ids)}), each touching the code region of that property (the anchor files or their close collaborators), each of a realistic size (10-80 changed lines), and of DIFFERENT kinds. Kinds to choose from:
  * refactoring: extract / inline a helper, rename private functions, variables or classes, reorder independent statements, replace a loop by a comprehension or vice versa, replace a visitor by a dict dispatch, change an internal data structure (list -> tuple, dict -> named tuple), simplify conditionals WITHOUT changing their meaning;
  * a correct optimisation: a cache that IS invalidated correctly, an early exit that IS equivalent, lazy evaluation that IS equivalent;
  * rewording of the human-readable explanation part of error / failure messages and of help-text prose (NOT: exit codes, the status identifiers such as PASS / FAIL / HARD_ERROR / VALIDATION_ERROR, the '[phase]' / 'line N' source-location information, option names, instruction names, or the syntax);
  * extra internal assertions / defensive checks that can never fire; extra logging to nowhere; type annotations; dead-code removal.
Every patch must leave ALL four properties (and everything else the program promises) intact: the observable behaviour that the properties speak about must be exactly the same for every input. When in doubt whether something is observable, do not change it. Do not touch lines that contain `_verif_trace` / `verif_trace` (tracing hooks) other than keeping them where they are relative to the statements around them.

Choose files that are NOT in this list (they were changed by an earlier round): """ + open('/tmp/benign/touched.txt').read() + """

NEVER use `git stash` (it is shared between all worktrees; other people work in sibling worktrees).

All four patches must apply TOGETHER to a clean checkout (they must not overlap). Procedure: make patch 1, save `git -C {wt} diff > {out}/<ID>.diff`, `git -C {wt} checkout -- .`, next one; at the end verify that all four apply together (`git apply` one after the other on the clean worktree), and leave the worktree clean.

You MUST verify for the combined tree: (1) `cd {wt} && /venv/bin/python -m pytest -q -p no:cacheprovider --timeout=900 --continue-on-collection-errors 2>&1 | tail -3` gives the same summary line as on the clean tree (many tests fail on the clean tree too; the line must be identical); (2) `cd {wt}/test/exactly-cases && /venv/bin/python {wt}/src/default-main-program-runner.py suite .` gives the same result as on the clean tree; (3) run the unit tests of the packages you touched, e.g. `cd {wt}/test && /venv/bin/python -m unittest exactly_lib_test.<package>.test_suite` or the nearest test module (compare the failure count with the clean tree: a few tests fail on the clean tree too).

Also write {out}/meta.json: a list of {{"property": ID, "patch": "<ID>.diff", "kind": "...", "summary": "...", "why_behaviour_preserving": "..."}}.
The machine is shared: do not start more than 4 processes at a time. There is no network. Reply with a two-line summary per patch."""
    open(out + '/PROMPT.txt', 'w').write(txt)
