#!/venv/bin/python
"""queued.py <round dir> <lanes>: polls <round dir>/queue.txt (lines 'Cxx [EXTRA...]'), runs runseed for each new line, <lanes> at a time"""
import os, subprocess, sys, time
rnd, lanes = sys.argv[1], int(sys.argv[2])
done, running = set(), []
while True:
    try:
        lines = [l.strip() for l in open(os.path.join(rnd, 'queue.txt')) if l.strip()]
    except OSError:
        lines = []
    running = [p for p in running if p.poll() is None]
    for l in lines:
        if l in done or len(running) >= lanes:
            continue
        if l == 'QUIT':
            if not running:
                sys.exit(0)
            continue
        done.add(l)
        pid = l.split()[0]
        out = open(os.path.join(rnd, pid, 'result.txt'), 'a')
        running.append(subprocess.Popen(['/tmp/seedtools/runseed.py', rnd] + l.split(), stdout=out, stderr=subprocess.STDOUT, cwd='/verif'))
    time.sleep(5)
