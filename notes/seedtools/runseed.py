#!/venv/bin/python
"""runseed.py <round dir> <Cxx> [EXTRA CHECK ...]  - verify + run checks for patch1/patch2 of an agent's delivery; compact output"""
import json, os, subprocess, sys
rnd, pid = sys.argv[1:3]; extra = sys.argv[3:]
d = os.path.join(rnd, pid)
for k in (1, 2):
    if not os.path.exists(os.path.join(d, 'patch%d.diff' % k)):
        continue
    try:
        meta = json.load(open(os.path.join(d, 'meta%d.json' % k)))
        name = meta['name']
    except Exception as ex:
        name = '%s-unnamed-%d' % (pid, k)
    if os.path.exists('/verif/seeded/' + name):
        name += '-2'
    p = subprocess.run(['/venv/bin/python', '/verif/harness/seedcheck.py', d, 'patch%d.diff' % k, 'demo%d.py' % k, name, pid] + extra,
                       stdout=subprocess.PIPE, stderr=subprocess.STDOUT, text=True)
    try:
        o = json.loads(p.stdout[p.stdout.index('{'):])
        print('%-70s confirmed=%s (clean=%s patched=%s base=%s) %s' % (name, o['confirmed'], o['demo_clean_exit'], o['demo_patched_exit'], o['baseline_passes'],
              {c: (x['exit'], x['violations'], x['wall']) for c, x in o['checks'].items()}), flush=True)
        for c, x in o['checks'].items():
            if x['exit'] == 1:
                print('     ', c, (x['first'] or ['?'])[0][:200])
            elif x['exit'] != 0:
                print('     ', c, 'MACHINERY', x['tail'])
    except Exception as ex:
        print(name, 'ERROR', ex, p.stdout[-500:], flush=True)
