#!/bin/sh
# runall.sh TREE OUTDIR [LANES]: all 20 quick checks against TREE, isolated replay/evidence
T=$1; O=$2; L=${3:-2}; mkdir -p $O
cd /verif
seq -w 1 20 | xargs -P $L -I{} sh -c "VERIF_REPO=$T VERIF_REPLAY_BASE=$O/replay VERIF_EVIDENCE_DIR=$O/evidence ./check C{} --tier quick > $O/C{}.log 2>&1; echo C{} exit=\$? >> $O/summary.txt"
echo ALLDONE >> $O/summary.txt
