import json, os, sys, glob
props = {json.loads(l)['id']: json.loads(l) for l in open('/verif/properties.jsonl')}
base = json.load(open('/root/.vp/BASELINE.json'))
rnd = sys.argv[1]  # e.g. seed9
for pid, p in props.items():
    existing = sorted(os.path.basename(d) for d in glob.glob('/verif/seeded/*') if json.load(open(d + '/meta.json')).get('property', os.path.basename(d)[:3]) == pid or os.path.basename(d).startswith(pid))
    wt = '/tmp/%s/%s/wt' % (rnd, pid)
    out = '/tmp/%s/%s' % (rnd, pid)
    txt = f"""You are helping to evaluate a verification effort for the open-source project emilkarlen/exactly (a CLI program tester with its own test-case DSL, written in Python; source under src/exactly_lib, run as `/venv/bin/python src/default-main-program-runner.py ...` or via `exactly_lib.cli_default.default_main_program_setup`). You get the text of ONE semantic property that the program is supposed to satisfy, and your own scratch git worktree of the repository at {wt} (already created; work ONLY there and in {out}; never touch /repo or /verif, never commit anything).

THE PROPERTY ({pid}): {p['title']}
Statement: {p['statement']}
Quantifier: {p['quantifier']['text']}
Code anchors (where the behaviour lives): {json.dumps(p.get('anchors', p.get('code_anchors', '')))[:1500]}

YOUR TASK: write TWO different, realistic changes to the source of exactly (under {wt}/src) that each BREAK this property, while the program still imports/"compiles" and the pinned test suite still passes. Think of the kind of mistake a maintainer could make in a refactoring, a performance optimisation, a caching improvement, a "simplification", or a bug fix elsewhere - NOT sabotage that ordinary use would expose at once. Each change must need something SPECIFIC to manifest: a particular multi-step sequence of instructions, an unusual input (boundary value, special character, empty thing, repeated thing), a fault at a particular point, a particular combination of two features, a second test case in a suite, or two cooperating sites that each look fine alone. The plain, everyday use of the feature must still behave correctly with your change, and the 188 example cases under test/exactly-cases should preferably still pass.

Changes of these names already exist for this property - yours must use a DIFFERENT mechanism, preferably a different file and layer, than what these names suggest: {', '.join(existing) or '(none)'}.

For each change k in (1, 2) deliver in {out}/ :
  patch{{k}}.diff  - `git -C {wt} diff` of ONLY that change (make change 1, save the diff, `git -C {wt} checkout -- .`, then make change 2 and save its diff; leave the worktree clean at the end). It must apply with `git apply` to a clean checkout.
  demo{{k}}.py     - a self-contained demonstration, run as `/venv/bin/python demo{{k}}.py <path of a source tree>`; it must put <tree>/src first on sys.path (or run `<tree>/src/default-main-program-runner.py` as a subprocess with /venv/bin/python), exercise the REAL program (write .case / .suite files into a temporary directory of its own and run them, or call the real API), exit 0 when the property holds (clean tree) and exit 1 with a short explanation when it is violated (changed tree). It must clean up its temporary files, be deterministic, and finish within 60 s.
  meta{{k}}.json   - {{"property": "{pid}", "name": "{pid}-<short-kebab-case-name>", "summary": "...what was changed and why it breaks the property...", "needs_to_manifest": "...what specific input / sequence / fault is needed...", "files_changed": [...], "why_tests_pass": "..."}}

You MUST verify yourself, for each change, before delivering:
  1. demo passes (exit 0) on the clean worktree and fails (exit 1) with the change applied;
  2. the pinned test suite still passes with the change: run  `cd {wt} && /venv/bin/python -m pytest -q -p no:cacheprovider --timeout=900 --continue-on-collection-errors 2>&1 | tail -3` on the CLEAN tree first to see the baseline summary (many tests fail or error on the clean tree too - that is expected; what matters is that the summary line "N failed, M passed" is IDENTICAL with your change);
  3. `cd {wt}/test/exactly-cases && /venv/bin/python {wt}/src/default-main-program-runner.py suite .` still reports the same result as on the clean tree (if not, say so in meta "why_tests_pass").
NEVER use `git stash` (the stash is shared between all worktrees of the repository and other people work in sibling worktrees): use `git diff > file; git checkout -- .; git apply file`. Do not write into /tmp outside {out} except through tempfile directories that you remove. The machine is shared: do not start more than 4 processes at a time. There is no network.

When done, reply with a three-line summary per change (name, file changed, what manifests it). If you could only produce one good change, deliver one."""
    os.makedirs(out, exist_ok=True)
    open(out + '/PROMPT.txt', 'w').write(txt)
print('ok')
